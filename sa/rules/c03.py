"""C03 — every expressed Interest completes exactly once (bookkeeping structure, both front-ends). DESIGN §4 C03."""
import ast
import itertools

from .common import (ctx, family, returns, calls_in_ctx, reach_from_succ, site, srcs_text, escape_check, resolve_call,
                     self_attr, const_bool, int_truthiness_uses, full_text)
from ..flow import callee_attr
from ..loader import AnalysisError, norm

FRONTS = {
    'v2': {'app': 'ndn.appv2.NDNApp', 'node': 'ndn.appv2.InterestTreeNode', 'trie': '_pit',
           'entry_satisfy': 'ndn.appv2.PendingIntEntry.satisfy'},
    'v1': {'app': 'ndn.app.NDNApp', 'node': 'ndn.name_tree.InterestTreeNode', 'trie': '_int_tree', 'entry_satisfy': None},
}
DOCUMENTED = {'ndn.types.InterestNack', 'ndn.types.InterestTimeout', 'ndn.types.InterestCanceled', 'ndn.types.ValidationFailure'}


# ------------------------------------------------------------------------------------------------ satisfy truth table
class _Unknown(Exception):
    pass


class _InlineExit(Exception):
    pass


class _LoopContinue(Exception):
    pass


def satisfy_table(cx, loopvar='entry'):
    """interpret the per-entry body of InterestTreeNode.satisfy for all 16 valuations of
    A=entry.can_be_prefix, B=is_prefix, C=entry has implicit digest, D=sha256(packet)==digest.
    returns {valuation: (delivered, kept)}"""
    fn = cx.f.node
    loops = [s for s in ast.walk(fn) if isinstance(s, ast.For) and 'pending_list' in ast.unparse(s.iter)]
    if len(loops) != 1:
        raise AnalysisError(f'{cx.qual}: expected exactly one loop over pending_list, found {len(loops)}')
    loop = loops[0]
    ev = ast.unparse(loop.target)
    isp = [a.arg for a in fn.args.args][2] if len(fn.args.args) >= 3 else 'is_prefix'
    out = {}

    for A, B, C, D in itertools.product([False, True], repeat=4):
        env = {}
        eff = {'deliver': 0, 'keep': 0}

        def val(e):
            t = ast.unparse(e)
            if isinstance(e, ast.Constant):
                return e.value
            if isinstance(e, ast.UnaryOp) and isinstance(e.op, ast.Not):
                return not val(e.operand)
            if isinstance(e, ast.BoolOp):
                if isinstance(e.op, ast.And):
                    r = True
                    for v in e.values:
                        r = val(v)
                        if not r:
                            return r
                    return r
                r = False
                for v in e.values:
                    r = val(v)
                    if r:
                        return r
                return r
            if t == f'{ev}.can_be_prefix' or (isinstance(e, ast.Attribute) and e.attr == 'can_be_prefix' and isinstance(e.value, ast.Attribute)
                                              and isinstance(e.value.value, ast.Name) and e.value.value.id == ev):
                return A            # read through a stored object: same flag; whether it is a snapshot is C03.PRV.3
            if t == isp:
                return B
            if t in (f'len({ev}.implicit_sha256) > 0', f'{ev}.implicit_sha256', f'len({ev}.implicit_sha256) != 0',
                     f'len({ev}.implicit_sha256)', f"{ev}.implicit_sha256 != b''"):
                return C
            if t in (f'len({ev}.implicit_sha256) == 0', f"{ev}.implicit_sha256 == b''"):
                return not C
            if isinstance(e, ast.Compare) and len(e.ops) == 1:
                # the length of the stored digest against a number, in any orientation / operator: 32 octets when present, 0 when absent
                import operator as _op
                ops_ = {ast.Eq: _op.eq, ast.NotEq: _op.ne, ast.Lt: _op.lt, ast.LtE: _op.le, ast.Gt: _op.gt, ast.GtE: _op.ge}
                l_, r_ = e.left, e.comparators[0]
                ln_ = f'len({ev}.implicit_sha256)'
                if type(e.ops[0]) in ops_:
                    if ast.unparse(l_) == ln_ and isinstance(r_, ast.Constant) and isinstance(r_.value, int) and r_.value in (0, 1):
                        return ops_[type(e.ops[0])](32 if C else 0, r_.value)
                    if ast.unparse(r_) == ln_ and isinstance(l_, ast.Constant) and isinstance(l_.value, int) and l_.value in (0, 1):
                        return ops_[type(e.ops[0])](l_.value, 32 if C else 0)
            if isinstance(e, ast.Compare) and len(e.ops) == 1 and isinstance(e.ops[0], (ast.Eq, ast.NotEq)):
                sides = [ast.unparse(e.left), ast.unparse(e.comparators[0])]
                if f'{ev}.implicit_sha256' in sides:
                    other = e.left if sides[1] == f'{ev}.implicit_sha256' else e.comparators[0]
                    ot = ast.unparse(other)
                    is_hash = ('sha256' in ot and 'digest' in ot) or (isinstance(other, ast.Name) and env.get(other.id) == 'HASH')
                    if is_hash:
                        return D if isinstance(e.ops[0], ast.Eq) else (not D)
            if isinstance(e, ast.Name) and e.id in env:
                return env[e.id]
            if isinstance(e, ast.Call) and isinstance(e.func, ast.Attribute) and e.func.attr in ('done', 'cancelled'):
                return False        # we characterise entries that are still pending
            if isinstance(e, ast.IfExp):
                return val(e.body) if val(e.test) else val(e.orelse)
            raise _Unknown(t)

        def run(body):
            for s in body:
                if type(s).__name__ == 'InlineBlock':
                    try:
                        run(s.body)
                    except _InlineExit:
                        pass
                elif type(s).__name__ == 'InlineExit':
                    raise _InlineExit()
                elif isinstance(s, ast.If):
                    run(s.body if val(s.test) else s.orelse)
                elif isinstance(s, ast.Assign) and len(s.targets) == 1 and isinstance(s.targets[0], ast.Name):
                    t = ast.unparse(s.value)
                    if 'sha256' in t and 'digest' in t and not isinstance(s.value, ast.Compare):
                        env[s.targets[0].id] = 'HASH'
                    else:
                        env[s.targets[0].id] = val(s.value)
                elif isinstance(s, ast.Expr) and isinstance(s.value, ast.Call):
                    c = s.value
                    t = ast.unparse(c)
                    if callee_attr(c) == 'set_result' or (callee_attr(c) in ('create_task', 'ensure_future') and 'satisfy' in t):
                        eff['deliver'] += 1
                    elif callee_attr(c) == 'append' and c.args and ast.unparse(c.args[0]) == ev:
                        eff['keep'] += 1
                    elif callee_attr(c) in ('debug', 'info', 'warning'):
                        pass
                    else:
                        raise _Unknown(t)
                elif isinstance(s, (ast.Pass,)):
                    pass
                elif isinstance(s, ast.Continue):
                    raise _LoopContinue()       # this entry is done
                elif isinstance(s, (ast.Break, ast.Return)):
                    raise _LoopContinue()       # early exits of the whole loop are judged by C03.LOP.1
                else:
                    raise _Unknown(ast.unparse(s)[:60])
        try:
            try:
                run(loop.body)
            except _LoopContinue:
                pass
        except _Unknown as u:
            raise AnalysisError(f'{cx.qual}: cannot interpret `{u}` in the matching loop')
        out[(A, B, C, D)] = (eff['deliver'], eff['keep'])
    return out, loop


def done_guard_after_await(R, oid, cx):
    """every set_result/set_exception in cx is behind a done()/cancelled() test of the same future that sits after the
    last suspension"""
    for (n, c) in calls_in_ctx(cx, pred=lambda c: callee_attr(c) in ('set_result', 'set_exception')):
        fut = ast.unparse(c.func.value)
        inst = f'{cx.qual} :: {ast.unparse(c.func)}'
        guards = [t for t in cx.cfg.nodes if t.kind == 'test' and isinstance(t.ast, ast.Call)
                  and callee_attr(t.ast) in ('done', 'cancelled') and ast.unparse(t.ast.func.value) == fut]
        if not guards:
            R.fail(oid, inst, cx.qual, c, 'completion of a possibly finished future is not guarded', site(cx, c))
            continue
        bad = False
        for a in [a for a in cx.cfg.nodes if a.has_await()]:
            if n.id in reach_from_succ(cx.cfg, a, removed_nodes={g.id for g in guards}):
                bad = True
        if n.id in cx.cfg.reachable(removed_edges={(g.id, False) for g in guards}):
            bad = True
        if bad:
            R.fail(oid, inst, cx.qual, c, 'completion reachable after a suspension without re-checking that the future is still pending',
                   site(cx, c))
        else:
            R.ok(oid, inst, site(cx, c), f'{len(guards)} guard test(s) after the last await')


def timeout_table(cx, futp):
    """which entries survive InterestTreeNode.timeout(future): {(entry.future is future, entry.task set): kept}. Understands a
    filtering comprehension assigned to self.pending_list and an explicit loop that appends the survivors to a local list."""
    fn = cx.f.node
    asg = [s for s in ast.walk(fn) if isinstance(s, ast.Assign) and any(ast.unparse(t) == 'self.pending_list' for t in s.targets)]
    if len(asg) != 1:
        raise _Unknown(f'{len(asg)} assignments to self.pending_list')
    out = {}

    def val(e, ev, F, T):
        t = ast.unparse(e)
        if isinstance(e, ast.UnaryOp) and isinstance(e.op, ast.Not):
            return not val(e.operand, ev, F, T)
        if isinstance(e, ast.BoolOp):
            vs = [val(v, ev, F, T) for v in e.values]
            return all(vs) if isinstance(e.op, ast.And) else any(vs)
        if isinstance(e, ast.Compare) and len(e.ops) == 1:
            l, r_ = ast.unparse(e.left), ast.unparse(e.comparators[0])
            pos = isinstance(e.ops[0], (ast.Is, ast.Eq))
            if not pos and not isinstance(e.ops[0], (ast.IsNot, ast.NotEq)):
                raise _Unknown(t)
            if {l, r_} == {f'{ev}.future', futp}:
                return F if pos else not F
            if {l, r_} == {f'{ev}.task', 'None'}:
                return (not T) if pos else T
        if t == f'{ev}.task':
            return T
        raise _Unknown(t)
    v = asg[0].value
    if isinstance(v, ast.ListComp):
        g = v.generators[0]
        ev = ast.unparse(g.target)
        if len(v.generators) != 1 or ast.unparse(g.iter) != 'self.pending_list' or ast.unparse(v.elt) != ev:
            raise _Unknown(ast.unparse(v))
        for F in (False, True):
            for T in (False, True):
                out[(F, T)] = all(val(c, ev, F, T) for c in g.ifs)
        return out, None
    if not isinstance(v, ast.Name):
        raise _Unknown(ast.unparse(v))
    lst = v.id
    loops = [s for s in ast.walk(fn) if isinstance(s, ast.For) and ast.unparse(s.iter) == 'self.pending_list'
             and any(isinstance(c, ast.Call) and callee_attr(c) == 'append' and ast.unparse(c.func.value) == lst for c in ast.walk(s))]
    inits = [s for s in ast.walk(fn) if isinstance(s, (ast.Assign, ast.AnnAssign)) and ast.unparse(s.targets[0] if isinstance(s, ast.Assign) else s.target) == lst
             and isinstance(s.value, ast.List) and not s.value.elts]
    if len(loops) != 1 or len(inits) != 1:
        raise _Unknown(f'how `{lst}` is built')
    ev = ast.unparse(loops[0].target)
    for F in (False, True):
        for T in (False, True):
            kept = [0]

            def run(body):
                for s in body:
                    if isinstance(s, ast.If):
                        run(s.body if val(s.test, ev, F, T) else s.orelse)
                    elif isinstance(s, ast.Expr) and isinstance(s.value, ast.Call):
                        c = s.value
                        if callee_attr(c) == 'append' and ast.unparse(c.func.value) == lst and ast.unparse(c.args[0]) == ev:
                            kept[0] += 1
                        elif callee_attr(c) in ('cancel', 'debug', 'info', 'warning'):
                            pass
                        else:
                            raise _Unknown(ast.unparse(c))
                    elif isinstance(s, ast.Continue):
                        raise _LoopContinue()
                    elif isinstance(s, ast.Pass):
                        pass
                    else:
                        raise _Unknown(ast.unparse(s)[:60])
            try:
                run(loops[0].body)
            except _LoopContinue:
                pass
            out[(F, T)] = kept[0] == 1
    return out, lst


def deadline_rule(R, oid, app):
    """the wait on the pending future is bounded by deadline - now, the deadline being an absolute clock reading taken when the
    Interest was expressed (shared by C03.PRV.2 and C05.PRV.2)"""
    P = R.P
    wq = app + '._wait_for_data'
    w = ctx(R, wq)
    ex = ctx(R, app + '.express_raw_interest')
    waitc = calls_in_ctx(ex, attr='_wait_for_data')
    R.need(waitc, f'{app}.express_raw_interest: no _wait_for_data call')
    wfs_ = [(n, c) for (n, c) in calls_in_ctx(w) if ast.unparse(c.func).endswith('wait_for')]
    R.need(wfs_, f'{wq}: no wait_for on the future')
    wfs = [(n, c) for (n, c) in calls_in_ctx(w) if ast.unparse(c.func).endswith('wait_for')]
    (wn_, wc_) = wfs[0]
    tmo = next((k.value for k in wc_.keywords if k.arg == 'timeout'), wc_.args[1] if len(wc_.args) > 1 else None)
    inst = f'{wq} :: wait_for timeout'
    if tmo is None:
        R.fail(oid, inst, wq, wc_, 'the wait has no time-out', site(w, wc_))
    else:
        wparams = [a.arg for a in w.f.node.args.args]
        dl_params = set()
        seen_txt = []
        todo = [(wn_, x) for x in ast.walk(tmo) if isinstance(x, ast.Name)]
        visited = set()
        while todo:
            (nd, nm) = todo.pop()
            for s_ in w.sources(nd, nm):
                key = (s_.kind, s_.text())
                if key in visited:
                    continue
                visited.add(key)
                seen_txt.append(s_.text())
                if s_.kind == 'expr':
                    e_ = s_.expr
                    for b in ast.walk(e_):
                        if isinstance(b, ast.BinOp) and isinstance(b.op, ast.Sub) and isinstance(b.left, ast.Name) and b.left.id not in wparams:
                            # a plain copy of a parameter (made when a new helper was expanded): read through it
                            cs_ = s_.ctx.sources(s_.node, b.left)
                            if cs_ and all(c_.kind == 'param' and c_.expr in wparams for c_ in cs_) and len({c_.expr for c_ in cs_}) == 1 and any(
                                    isinstance(c, ast.Call) and (callee_attr(c) == 'timestamp' or ast.unparse(c.func) == 'timestamp') for c in ast.walk(b.right)):
                                dl_params.add(cs_[0].expr)
                        if isinstance(b, ast.BinOp) and isinstance(b.op, ast.Sub) and isinstance(b.left, ast.Name) \
                                and b.left.id in wparams and any(isinstance(c, ast.Call) and callee_attr(c) in ('timestamp',) or
                                                                 (isinstance(c, ast.Call) and ast.unparse(c.func) == 'timestamp')
                                                                 for c in ast.walk(b.right)):
                            dl_params.add(b.left.id)
                    todo += [(s_.node, x) for x in ast.walk(e_) if isinstance(x, ast.Name) and x.id not in wparams]
        okdl = False
        if dl_params:
            dp = dl_params.pop()
            idx = wparams.index(dp) - 1
            (xn, xc) = waitc[0]
            if idx < len(xc.args):
                asrcs = ex.sources(xn, xc.args[idx])
                # the deadline must be rooted in a clock reading taken in express_raw_interest
                def rooted(srcs_, depth=0):
                    for a_ in srcs_:
                        if a_.kind == 'expr' and any(isinstance(c, ast.Call) and (callee_attr(c) == 'timestamp' or ast.unparse(c.func) == 'timestamp')
                                                     for c in ast.walk(a_.expr)):
                            return True
                        if a_.kind == 'expr' and depth < 3:
                            # the clock reading hoisted into a local (`now = timestamp(); deadline = now + lifetime`)
                            for x_ in ast.walk(a_.expr):
                                if isinstance(x_, ast.Name) and isinstance(x_.ctx, ast.Load) and rooted(a_.ctx.sources(a_.node, x_), depth + 1):
                                    return True
                        if a_.kind == 'aug' and depth < 3:
                            tgt = a_.expr.target
                            prev = [(d_, v_) for (d_, v_) in a_.ctx.cfg.defs_reaching(a_.node, tgt.id)] if isinstance(tgt, ast.Name) else []
                            for (d_, v_) in prev:
                                if isinstance(v_, ast.AST) and any(isinstance(c, ast.Call) and (callee_attr(c) == 'timestamp' or ast.unparse(c.func) == 'timestamp')
                                                                   for c in ast.walk(v_)):
                                    return True
                    return False
                okdl = rooted(asrcs)
        if okdl:
            R.ok(oid, inst, site(w, wc_), 'timeout <- deadline - now, deadline <- clock reading at express time')
        else:
            R.fail(oid, inst, wq, wc_, 'the lifetime is counted from the first await of the returned coroutine, not from the moment '
                   f'the Interest was expressed (timeout derives from {sorted(set(seen_txt))[:4]})', site(w, wc_))


def run(R):
    P = R.P
    R.ob('C03.FUT.1', 'every completion (set_result/set_exception) of a pending-Interest future is guarded against a finished future')
    R.ob('C03.REL.1', '_wait_for_data: every handler exit (time-out, cancellation) is preceded by removal of the entry from the PIT')
    R.ob('C03.ESC.1', 'escape set of _wait_for_data is within {InterestNack, InterestTimeout, InterestCanceled, ValidationFailure}')
    R.ob('C03.MPT.1', 'a PIT node is deleted on the waiter side only if it is still the node this waiter registered in')
    R.ob('C03.MAP.1', 'time-out maps to InterestTimeout, cancellation to InterestCanceled')
    R.ob('C03.TBL.1', 'InterestTreeNode.satisfy: delivered <=> (can_be_prefix or not is_prefix) and (no digest or sha256(packet) == digest); '
                      'every entry is either delivered or kept, never both')
    R.ob('C03.LOP.1', 'matching visits every prefix node and every entry (no early exit); kept entries stay pending; a node is '
                      'deleted iff nothing is left in it')
    R.ob('C03.ORD.1', 'express_raw_interest registers the entry before sending and waits on the same future / node / key')
    R.ob('C03.REL.2', 'timeout() removes exactly the entries of the given future; cancel() cancels every entry; _clean_up cancels '
                      'every node and clears the PIT')
    tables = {}
    for fr, d in FRONTS.items():
        app, nodeq, trie = d['app'], d['node'], d['trie']
        # ------------------------------------------------------------ FUT.1
        for fq in [nodeq + '.nack_interest', nodeq + '.satisfy'] + ([d['entry_satisfy']] if d['entry_satisfy'] else []):
            cx = ctx(R, fq)
            comps = calls_in_ctx(cx, pred=lambda c: callee_attr(c) in ('set_result', 'set_exception'))
            if not comps:
                continue
            escape_check(R, 'C03.FUT.1', fq, set(), 'the completer', only={'asyncio.InvalidStateError'})
        # ------------------------------------------------------------ ESC.1
        wq = app + '._wait_for_data'
        escape_check(R, 'C03.ESC.1', wq, DOCUMENTED, 'the awaitable returned by express')
        # ------------------------------------------------------------ REL.1 / MAP.1
        w = ctx(R, wq)
        waits = [n for n in w.cfg.nodes if any(isinstance(c, ast.Call) and ast.unparse(c.func).endswith('wait_for') for c in n.calls())]
        R.need(waits, f'{wq}: no wait_for on the future')

        def is_remover(c):
            if callee_attr(c) == 'timeout':
                return True
            q = resolve_call(P, w, c)
            if q and q.startswith(app + '.'):
                h = ctx(R, q)
                rem = [n for (n, c2) in calls_in_ctx(h, attr='timeout')]
                # helper counts if all its normal paths pass a timeout() call
                return bool(rem) and h.cfg.exit.id not in h.cfg.reachable(removed_nodes={n.id for n in rem}, follow_exc=False)
            return False
        removers = [n for n in w.cfg.nodes if any(is_remover(c) for c in n.calls())]
        handlers = [h for h in w.cfg.nodes if h.kind == 'handler' and any(
            any(s is h for (s, l) in wn.succ) for wn in waits)]
        want_map = {'TimeoutError': 'ndn.types.InterestTimeout', 'asyncio.CancelledError': 'ndn.types.InterestCanceled'}
        seen_classes = set()
        for h in handlers:
            names = P.handler_names(w.f.mod, h.ast)
            inst = f'{wq} :: {norm(h.ast)}'
            hreach = w.cfg.reachable(h)
            exits = [n for n in w.cfg.nodes if n.id in hreach and (n.kind == 'raise' or n.kind == 'return')]
            r = w.cfg.reachable(h, removed_nodes={n.id for n in removers})
            bad = [x for x in exits if x.id in r]
            R.paths_examined += len(exits)
            if bad:
                R.fail('C03.REL.1', inst, wq, h.ast, 'the pending entry is left in the PIT when the waiter ends through this handler '
                       f'({norm(bad[0].ast)})', site(w, h.ast))
            else:
                R.ok('C03.REL.1', inst, site(w, h.ast), f'{len(removers)} remover call(s) before every exit')
            for nm in names:
                if nm in want_map:
                    seen_classes.add(nm)
                    # exits of the handler when the exception caught is `nm`: `isinstance(<bound name>, T)` tests inside are decided by it
                    hexits = exits
                    if h.ast.name:
                        def isinst(e, nm=nm, hname=h.ast.name):
                            if isinstance(e, ast.Call) and isinstance(e.func, ast.Name) and e.func.id == 'isinstance' and len(e.args) == 2 \
                                    and isinstance(e.args[0], ast.Name) and e.args[0].id == hname:
                                ts = e.args[1].elts if isinstance(e.args[1], ast.Tuple) else [e.args[1]]
                                return any(P.caught_by(nm, [P.exc_name(w.f.mod, t_)]) for t_ in ts)
                            return None
                        from .common import explore
                        er = explore(w, isinst, start=h)
                        hexits = [x for x in exits if x.id in er]
                    raised = {P.exc_name(w.f.mod, x.ast.exc) for x in hexits if x.kind == 'raise' and x.ast.exc is not None}
                    inst2 = f'{wq} :: {nm} -> {want_map[nm].rsplit(".", 1)[1]}'
                    if raised == {want_map[nm]} and not any(x.kind == 'return' for x in hexits):
                        R.ok('C03.MAP.1', inst2, site(w, h.ast))
                    else:
                        R.fail('C03.MAP.1', inst2, wq, h.ast, f'{nm} ends the waiter with {sorted(raised) or "a normal return"} '
                               f'instead of {want_map[nm]}', site(w, h.ast))
        # the outcome "timed out" / "cancelled" is only ever decided by the wait on the future itself: a raise of these classes that can be
        # reached without going through a handler of the wait gives up without looking at the future (Data that arrived in time is lost)
        outside = w.cfg.reachable(removed_nodes={h.id for h in handlers})
        for x in w.cfg.nodes:
            if x.kind == 'raise' and x.ast.exc is not None and P.exc_name(w.f.mod, x.ast.exc) in want_map.values():
                inst3 = f'{wq} :: {norm(x.ast)} only as the outcome of the wait'
                if x.id in outside:
                    R.fail('C03.MAP.1', inst3, wq, x.ast, f'{norm(x.ast)} can be reached without the wait on the future having ended that way: the '
                           'Interest is declared timed out / cancelled without looking at its future, so a Data packet that arrived within the lifetime '
                           '(the future already holds it) is discarded', site(w, x.ast))
                else:
                    R.ok('C03.MAP.1', inst3, site(w, x.ast))
        for nm in want_map:
            if nm not in seen_classes:
                R.fail('C03.MAP.1', f'{wq} :: {nm} handler', wq, 'def _wait_for_data', f'{nm} around the wait is not mapped to '
                       f'{want_map[nm].rsplit(".", 1)[1]}', site(w, w.f.node))
        # ------------------------------------------------------------ MPT.1 identity-guarded deletion
        helper_quals = {wq}
        for n in w.cfg.nodes:
            for c in n.calls():
                q = resolve_call(P, w, c)
                if q and q.startswith(app + '.') and q != wq:
                    helper_quals.add(q)
        ndel = 0
        for hq in sorted(helper_quals):
            h = ctx(R, hq)
            for n in h.cfg.nodes:
                # a deletion: `del self.<trie>[k]`, or `self.<trie>.pop(k[, default])`
                gone = []
                if n.kind == 'stmt' and isinstance(n.ast, ast.Delete):
                    gone = [t.slice for t in n.ast.targets if isinstance(t, ast.Subscript) and self_attr(t.value, trie)]
                elif n.kind == 'stmt':
                    gone = [c_.args[0] for c_ in n.calls() if callee_attr(c_) == 'pop' and self_attr(c_.func.value, trie) and c_.args]
                if gone:
                    for t_slice in gone:
                        if True:
                            ndel += 1
                            key = ast.unparse(t_slice)
                            ident = []
                            for tn in h.cfg.nodes:
                                if tn.kind == 'test' and isinstance(tn.ast, ast.Compare) and len(tn.ast.ops) == 1 \
                                        and isinstance(tn.ast.ops[0], (ast.Is, ast.IsNot)):
                                    l = tn.ast.left
                                    lt = ast.unparse(l)
                                    if lt in (f'self.{trie}.get({key})', f'self.{trie}[{key}]', f'self.{trie}.get({key}, None)'):
                                        ident.append((tn, isinstance(tn.ast.ops[0], ast.Is)))
                            inst = f'{hq} :: {norm(n.ast)}'
                            # ... and only when timeout() reported that no other entry is left in the node
                            empt = [tn for tn in h.cfg.nodes if tn.kind == 'test' and isinstance(tn.ast, ast.Call) and callee_attr(tn.ast) == 'timeout']
                            if not empt or n.id in h.cfg.reachable(removed_edges={(tn.id, True) for tn in empt}):
                                R.fail('C03.MPT.1', inst + ' (emptiness)', hq, n.ast, 'the PIT node is deleted although timeout() did not report it empty: '
                                       'other Interests pending under the same name are dropped', site(h, n.ast))
                            if not ident or n.id in h.cfg.reachable(removed_edges={(tn.id, lab) for (tn, lab) in ident}):
                                R.fail('C03.MPT.1', inst, hq, n.ast, 'the PIT node is deleted by name without checking that it is still the '
                                       'node this waiter registered in (a node re-created by a later express would be dropped)', site(h, n.ast))
                            else:
                                R.ok('C03.MPT.1', inst, site(h, n.ast), f'behind `{norm(ident[0][0].ast)}`')
        R.need(ndel >= 1, f'{wq}: no PIT deletion on the waiter side found')
        # ------------------------------------------------------------ TBL.1
        sx = ctx(R, nodeq + '.satisfy')
        tab, loop = satisfy_table(sx)
        tables[fr] = tab
        R.paths_examined += 16
        wrong = []
        for (A, B, C, D), (dl, kp) in sorted(tab.items()):
            want = (A or not B) and ((not C) or D)
            if (dl, kp) != ((1, 0) if want else (0, 1)):
                wrong.append(f'can_be_prefix={A} is_prefix={B} digest={C} hash_ok={D}: delivered={dl} kept={kp}')
        inst = f'{nodeq}.satisfy :: 16-row matching table'
        if wrong:
            R.fail('C03.TBL.1', inst, nodeq + '.satisfy', loop, f'matching rule differs from the specification in {len(wrong)} row(s): {wrong[0]}',
                   site(sx, loop))
        else:
            R.ok('C03.TBL.1', inst, site(sx, loop), '16/16 rows')
        # ------------------------------------------------------------ LOP.1
        # (a) satisfy: no early exit from the loop; list rebuilt from the kept entries; return value
        early = [x for x in ast.walk(loop) if isinstance(x, (ast.Break, ast.Return))]
        inst = f'{nodeq}.satisfy :: loop completeness'
        if early:
            R.fail('C03.LOP.1', inst, nodeq + '.satisfy', early[0], 'matching stops before all pending entries were examined', site(sx, early[0]))
        else:
            R.ok('C03.LOP.1', inst, site(sx, loop))
        keep_lists = {ast.unparse(c.func.value) for c in ast.walk(loop) if isinstance(c, ast.Call) and callee_attr(c) == 'append'}
        assigns = [n for n in sx.cfg.nodes if n.kind == 'stmt' and isinstance(n.ast, ast.Assign)
                   and any(ast.unparse(t) == 'self.pending_list' for t in n.ast.targets)]
        inst = f'{nodeq}.satisfy :: kept entries stay pending, node reported empty iff none kept'
        probs = []
        if len(keep_lists) != 1:
            probs.append((f'kept entries collected in {sorted(keep_lists)}', loop))
        else:
            kl = keep_lists.pop()
            if not assigns or any(ast.unparse(a.ast.value) != kl for a in assigns):
                probs.append(('pending_list is not replaced by exactly the kept entries', assigns[0].ast if assigns else loop))
            for rn in returns(sx):
                v = const_bool(rn.ast.value)
                # True must be reachable only when the kept list is empty
                tests = [t for t in sx.cfg.nodes if t.kind == 'test' and ast.unparse(t.ast) in (kl, f'len({kl}) > 0', f'len({kl})')]
                if v is True and (not tests or rn.id in sx.cfg.reachable(removed_edges={(t.id, False) for t in tests})):
                    probs.append(('reports "node empty" (True) although entries were kept', rn.ast))
                if v is False and tests and rn.id in sx.cfg.reachable(removed_edges={(t.id, True) for t in tests}):
                    probs.append(('reports "node not empty" (False) although nothing was kept', rn.ast))
                if v is None:
                    t = full_text(sx, rn.ast.value)
                    if t not in (f'not {kl}', f'len({kl}) == 0', 'not self.pending_list', f'len({kl}) <= 0', f'len({kl}) < 1'):
                        raise AnalysisError(f'{nodeq}.satisfy: unrecognised return {t}')
                if v is True and assigns:
                    # on the empty path the list must not keep stale entries: deletion of the node follows, fine
                    pass
        if probs:
            for (what, construct) in probs:
                R.fail('C03.LOP.1', inst, nodeq + '.satisfy', construct, what, site(sx, construct))
        else:
            R.ok('C03.LOP.1', inst, site(sx, loop))
        # (b) _on_data
        od = ctx(R, app + '._on_data')
        loops = [n for n in od.cfg.nodes if n.kind == 'for' and isinstance(n.ast.iter, ast.Call) and callee_attr(n.ast.iter) == 'prefixes'
                 and self_attr(n.ast.iter.func.value, trie)]
        inst = f'{app}._on_data :: prefix walk'
        if len(loops) != 1:
            R.fail('C03.LOP.1', inst, app + '._on_data', 'def _on_data', f'Data is not matched against self.{trie}.prefixes(name)', site(od, od.f.node))
        else:
            lp = loops[0]
            pname = od.f.node.args.args[1].arg
            probs = []
            if not (lp.ast.iter.args and ast.unparse(lp.ast.iter.args[0]) == pname):
                probs.append((f'walks prefixes of {ast.unparse(lp.ast.iter.args[0]) if lp.ast.iter.args else "?"} instead of the Data name', lp.ast.iter))
            early = [x for x in ast.walk(lp.ast) if isinstance(x, (ast.Break, ast.Return))]
            if early:
                probs.append(('stops at the first matching prefix: other pending Interests that this Data satisfies stay pending', early[0]))
            keyv = lp.ast.target.elts[0].id if isinstance(lp.ast.target, ast.Tuple) else None
            nodev = lp.ast.target.elts[1].id if isinstance(lp.ast.target, ast.Tuple) and len(lp.ast.target.elts) > 1 else None
            sats = [c for c in ast.walk(lp.ast) if isinstance(c, ast.Call) and callee_attr(c) == 'satisfy']
            if len(sats) != 1 or keyv is None:
                raise AnalysisError(f'{app}._on_data: cannot find the single node.satisfy(...) call in the prefix loop')
            sc = sats[0]
            if ast.unparse(sc.func.value) != nodev:
                probs.append((f'satisfy is called on {ast.unparse(sc.func.value)}, not on the visited node', sc))
            # first arg: DataTuple in order from the parameters
            params = [a.arg for a in od.f.node.args.args[1:]] + [a.arg for a in od.f.node.args.kwonlyargs]
            # (arguments by position or by their parameter names `data` / `is_prefix`; the receiver is a loop variable, so keywords stay keywords)
            kws = {k.arg: k.value for k in sc.keywords if k.arg}
            a_data = sc.args[0] if sc.args else kws.get('data')
            a_pref = sc.args[1] if len(sc.args) > 1 else kws.get('is_prefix')
            if not (a_data is not None and isinstance(a_data, ast.Tuple) and [ast.unparse(e) for e in a_data.elts] == params[:5]):
                probs.append((f'the packet tuple handed to satisfy is {ast.unparse(a_data) if a_data is not None else "?"}, expected {tuple(params[:5])}', sc))
            # second arg: is_prefix == (prefix != name)
            if a_pref is not None:
                t = ast.unparse(a_pref)
                okp = t in (f'{keyv} != {pname}', f'{pname} != {keyv}', f'not {keyv} == {pname}', f'not ({keyv} == {pname})',
                            f'len({keyv}) != len({pname})', f'len({keyv}) < len({pname})', f'len({pname}) > len({keyv})')
                if not okp:
                    probs.append((f'is_prefix is computed as `{t}`, expected `{keyv} != {pname}`', sc))
            # deletion exactly of the nodes that reported empty
            dels = [n for n in od.cfg.nodes if n.kind == 'stmt' and isinstance(n.ast, ast.Delete)
                    and any(isinstance(t, ast.Subscript) and self_attr(t.value, trie) for t in n.ast.targets)]
            if not dels:
                probs.append(('a fully satisfied PIT node is never deleted (finished Interests stay in the table)', od.f.node))
            else:
                # the collection of keys to delete is filled only under the truthy edge of node.satisfy(...)
                fills = [(n, c) for (n, c) in calls_in_ctx(od, attr='append') if c.args and ast.unparse(c.args[0]) == keyv]
                tests = [t for t in od.cfg.nodes if t.kind == 'test' and any(x is sc for x in ast.walk(t.ast))]
                if fills and tests:
                    if any(n.id in od.cfg.reachable(removed_edges={(t.id, True) for t in tests}) for (n, c) in fills):
                        probs.append(('a node is scheduled for deletion although satisfy reported that entries remain', fills[0][1]))
                elif not fills:
                    # direct deletion inside loop is not an accepted shape (mutating while iterating)
                    probs.append(('cannot relate node deletion to the result of satisfy', dels[0].ast))
            if probs:
                for (what, construct) in probs:
                    R.fail('C03.LOP.1', inst, app + '._on_data', construct if not isinstance(construct, (ast.FunctionDef, ast.AsyncFunctionDef)) else 'def _on_data',
                           what, site(od, construct))
            else:
                R.ok('C03.LOP.1', inst, site(od, lp.ast), 'all prefixes, is_prefix = prefix != name, delete iff satisfy() is True')
        # (c) _on_nack: node deleted only if nack_interest reported done, lookup by the nacked name
        on = ctx(R, app + '._on_nack')
        dels = [n for n in on.cfg.nodes if n.kind == 'stmt' and isinstance(n.ast, ast.Delete)]
        nacks = calls_in_ctx(on, attr='nack_interest')
        inst = f'{app}._on_nack :: complete then delete'
        if not nacks:
            R.fail('C03.LOP.1', inst, app + '._on_nack', 'def _on_nack', 'a Nack does not complete the pending Interests of that name', site(on, on.f.node))
        elif not dels:
            R.fail('C03.LOP.1', inst, app + '._on_nack', 'def _on_nack', 'nacked PIT node is never deleted', site(on, on.f.node))
        else:
            nn = nacks[0][0]
            if not all(on.cfg.dominates(nn, d) for d in dels):
                R.fail('C03.LOP.1', inst, app + '._on_nack', dels[0].ast, 'PIT node deleted without completing its entries with the Nack', site(on, dels[0].ast))
            else:
                R.ok('C03.LOP.1', inst, site(on, nacks[0][1]))
        # the nacked node is found by an exact lookup of the Nack's name (not a prefix match)
        R.ob('C03.PRV.1', 'a Nack completes only the Interests pending under exactly the nacked name')
        pname = on.f.node.args.args[1].arg
        for (nn_, nc_) in nacks:
            inst = f'{app}._on_nack :: node lookup'
            srcs = on.sources(nn_, nc_.func.value)
            good = bool(srcs)
            for s_ in srcs:
                e_ = s_.expr if s_.kind == 'expr' else None
                if isinstance(e_, ast.Constant) and e_.value is None:
                    continue
                exact = (isinstance(e_, ast.Subscript) and self_attr(e_.value, trie) and ast.unparse(e_.slice) == pname) or \
                        (isinstance(e_, ast.Call) and callee_attr(e_) == 'get' and self_attr(e_.func.value, trie) and e_.args
                         and ast.unparse(e_.args[0]) == pname)
                if not exact:
                    good = False
            if good:
                R.ok('C03.PRV.1', inst, site(on, nc_), f'self.{trie}[{pname}]')
            else:
                R.fail('C03.PRV.1', inst, app + '._on_nack', nc_, f'the node to nack is {srcs_text(srcs)}, not the exact entry of the nacked name '
                       '(Interests pending under other names would be completed with this Nack)', site(on, nc_))
        # nack_interest visits all entries with the given reason
        nk = ctx(R, nodeq + '.nack_interest')
        lps = [s for s in ast.walk(nk.f.node) if isinstance(s, ast.For) and 'pending_list' in ast.unparse(s.iter)]
        inst = f'{nodeq}.nack_interest :: all entries, reason passed through'
        reason = nk.f.node.args.args[1].arg
        okn = len(lps) == 1 and not any(isinstance(x, (ast.Break, ast.Return)) for x in ast.walk(lps[0]))
        excs = [c for c in ast.walk(nk.f.node) if isinstance(c, ast.Call) and callee_attr(c) == 'set_exception']
        okr = bool(excs) and all(isinstance(c.args[0], ast.Call) and P.exc_name(nk.f.mod, c.args[0]) == 'ndn.types.InterestNack'
                                 and c.args[0].args and ast.unparse(c.args[0].args[0]) == reason for c in excs)
        if not okn:
            R.fail('C03.LOP.1', inst, nk.qual, lps[0] if lps else 'def nack_interest', 'not every pending entry of the node is nacked', site(nk, nk.f.node))
        elif not okr:
            R.fail('C03.LOP.1', inst, nk.qual, excs[0] if excs else 'def nack_interest', 'entries are not completed with InterestNack(<received reason>)',
                   site(nk, nk.f.node))
        else:
            R.ok('C03.LOP.1', inst, site(nk, lps[0]))
        # ------------------------------------------------------------ ORD.1 express_raw_interest
        ex = ctx(R, app + '.express_raw_interest')
        apps = calls_in_ctx(ex, attr='append_interest')
        sends = [n for (n, c) in calls_in_ctx(ex, attr='send')]
        waitc = calls_in_ctx(ex, attr='_wait_for_data')
        inst = f'{app}.express_raw_interest :: register, send, wait'
        R.need(waitc, f'{app}.express_raw_interest: no _wait_for_data call')
        probs = []
        if not apps:
            probs.append(('the Interest is never recorded in the PIT', ex.f.node))
        else:
            (an, ac) = apps[0]
            # every send on the response-expected path is after registration
            late = [s for s in sends if not ex.cfg.dominates(an, s) and ex.cfg.path_exists(s, waitc[0][0])]
            if late:
                probs.append(('the Interest is sent before its entry is in the PIT (a fast reply would be lost)', late[0].ast))
            (wn, wc) = waitc[0]
            fut_a = ast.unparse(ac.args[0]) if ac.args else None
            fut_w = ast.unparse(wc.args[0]) if wc.args else None
            if fut_a != fut_w:
                probs.append((f'waits on {fut_w} but registered {fut_a}', wc))
            node_a = ast.unparse(ac.func.value)
            wargs = [ast.unparse(a) for a in wc.args]
            if node_a not in wargs:
                probs.append((f'the waiter is not given the node the entry was appended to ({node_a})', wc))
            # node key: setdefault key == key passed to the waiter
            sd = calls_in_ctx(ex, attr='setdefault')
            if sd:
                key = ast.unparse(sd[0][1].args[0])
                if key not in wargs:
                    probs.append((f'the waiter is given a different PIT key than the one used to register ({key})', wc))
                # implicit digest stripped from the key
                srcs = ex.sources(sd[0][0], sd[0][1].args[0])
                txts = srcs_text(srcs)
                if not any('[:-1]' in t for t in txts):
                    probs.append(('the PIT key keeps the implicit-digest component (Data would never match)', sd[0][1]))
        if probs:
            for (what, construct) in probs:
                R.fail('C03.ORD.1', inst, ex.qual, construct if not isinstance(construct, ast.FunctionDef) else 'def express_raw_interest',
                       what, site(ex, construct))
        else:
            R.ok('C03.ORD.1', inst, site(ex, apps[0][1]))
        # ------------------------------------------------------------ PRV.2 deadline fixed at express time
        R.ob('C03.PRV.2', 'the time-out of the wait is computed from an absolute deadline fixed when the Interest is expressed')
        deadline_rule(R, 'C03.PRV.2', app)
        # ------------------------------------------------------------ REL.2
        tm = ctx(R, nodeq + '.timeout')
        futp = tm.f.node.args.args[1].arg
        inst = f'{nodeq}.timeout :: removes exactly the entries of the given future'
        try:
            keep, newlist = timeout_table(tm, futp)
        except _Unknown as u:
            raise AnalysisError(f'{tm.qual}: cannot interpret `{u}` (filtering of the pending list)')
        bad = [k for k, v in keep.items() if v != (not k[0])]
        if not bad:
            R.ok('C03.REL.2', inst, site(tm, tm.f.node), 'kept <=> entry.future is not the given future (4 valuations)')
        else:
            F, T = bad[0]
            R.fail('C03.REL.2', inst, tm.qual, 'def timeout', 'timeout() does not keep exactly the entries of the other futures: an entry whose future '
                   f'{"is" if F else "is not"} the given one (task {"set" if T else "unset"}) is {"kept" if keep[bad[0]] else "dropped"}', site(tm, tm.f.node))
        rets = returns(tm)
        inst = f'{nodeq}.timeout :: reports emptiness'
        empties = {'not self.pending_list', 'len(self.pending_list) == 0'} | ({f'not {newlist}', f'len({newlist}) == 0'} if newlist else set())
        if rets and all(r.ast.value is not None and (ast.unparse(r.ast.value) in empties or full_text(tm, r.ast.value) in empties) for r in rets):
            R.ok('C03.REL.2', inst, site(tm, rets[0].ast))
        else:
            R.fail('C03.REL.2', inst, tm.qual, rets[0].ast if rets else 'def timeout', 'timeout() does not report whether the node became empty',
                   site(tm, tm.f.node))
        cn = ctx(R, nodeq + '.cancel')
        lps = [s for s in ast.walk(cn.f.node) if isinstance(s, ast.For) and 'pending_list' in ast.unparse(s.iter)]
        cc = [c for c in ast.walk(cn.f.node) if isinstance(c, ast.Call) and callee_attr(c) == 'cancel' and 'future' in ast.unparse(c.func)]
        inst = f'{nodeq}.cancel :: cancels every entry'
        if len(lps) == 1 and cc and not any(isinstance(x, (ast.Break, ast.Return)) for x in ast.walk(lps[0])):
            R.ok('C03.REL.2', inst, site(cn, lps[0]))
        else:
            R.fail('C03.REL.2', inst, cn.qual, 'def cancel', 'not every pending future is cancelled on shutdown', site(cn, cn.f.node))
        cu = ctx(R, app + '._clean_up')
        inst = f'{app}._clean_up :: cancel all then clear'
        lpn = [n for n in cu.cfg.nodes if n.kind == 'for' and self_attr(getattr(getattr(n.ast.iter, 'func', None), 'value', None), trie)]
        cancels = calls_in_ctx(cu, attr='cancel')
        clears = [n for (n, c) in calls_in_ctx(cu, attr='clear') if self_attr(c.func.value, trie)]
        if not lpn or not cancels:
            R.fail('C03.REL.2', inst, cu.qual, 'def _clean_up', 'pending Interests are not cancelled when the face shuts down', site(cu, cu.f.node))
        elif not clears or cu.cfg.exit.id in cu.cfg.reachable(removed_nodes={n.id for n in clears}, follow_exc=False):
            R.fail('C03.REL.2', inst, cu.qual, 'def _clean_up', 'the PIT is not emptied on shutdown', site(cu, cu.f.node))
        else:
            R.ok('C03.REL.2', inst, site(cu, lpn[0].ast))
        # ------------------------------------------------------------ SIB.2 a Nack finds the node the Interest was registered in
        R.ob('C03.SIB.2', 'the table key a Nack is looked up under is derived from the Interest name the way the key at registration is: where '
                          'express_raw_interest drops a trailing implicit-digest component, _on_nack drops it too')
        ex2 = ctx(R, app + '.express_raw_interest')
        on2 = ctx(R, app + '._on_nack')
        strips_reg = any(t.kind == 'test' and 'TYPE_IMPLICIT_SHA256' in full_text(ex2, t.ast) for t in ex2.cfg.nodes)
        strips_nack = any(t.kind == 'test' and 'TYPE_IMPLICIT_SHA256' in full_text(on2, t.ast) for t in on2.cfg.nodes)
        pn2 = on2.f.node.args.args[1].arg
        look = [x for n_ in on2.cfg.nodes for x in n_.walk() if (isinstance(x, ast.Subscript) and self_attr(x.value, trie) and isinstance(x.ctx, ast.Load))
                or (isinstance(x, ast.Call) and callee_attr(x) == 'get' and self_attr(x.func.value, trie))]
        R.need(look, f'{on2.qual}: no lookup in self.{trie}')
        inst = f'{on2.qual} :: lookup key'
        if strips_reg and not strips_nack:
            R.fail('C03.SIB.2', inst, on2.qual, 'def _on_nack', f'an Interest whose name ends in an implicit digest is registered under the name without it, but the Nack is looked '
                   f'up under the full name `{pn2}` (a Nack carries the Interest as sent): nothing is found and the pending Interest ends by time-out instead of '
                   'InterestNack (repro notes/repro/e21.py)', site(on2, look[0]))
        else:
            R.ok('C03.SIB.2', inst, site(on2, look[0]))
        # ------------------------------------------------------------ NUL.1 lifetime 0 is a lifetime
        R.ob('C03.NUL.1', 'the Interest lifetime (optional integer) is tested with `is None`, never by truthiness, where the deadline is computed')
        nuses = 0
        for fq in (app + '.express_raw_interest', app + '.express_interest' if fr == 'v1' else app + '.express'):
            for cxx in family(R, fq):
                for (e, dsc) in int_truthiness_uses(P, cxx):
                    if 'lifetime' not in dsc:
                        continue
                    nuses += 1
                    R.fail('C03.NUL.1', f'{cxx.qual} :: {norm(e)[:80]}', cxx.qual, e, f'{dsc} is tested by truthiness: a lifetime of 0 is taken for "absent" and the '
                           'default lifetime is used, so Data arriving after the real deadline still completes the Interest', site(cxx, e))
        if not nuses:
            R.ok('C03.NUL.1', f'{app} :: lifetime presence tests', site(ex, ex.f.node))
        # ------------------------------------------------------------ PRV.3 the pending entry is a snapshot
        R.ob('C03.PRV.3', 'a pending entry keeps copies of the flags that decide matching (CanBePrefix, MustBeFresh, digest), not a reference to the '
                          'caller\'s InterestParam object')
        ai = ctx(R, nodeq + '.append_interest')
        mk = [c for (n, c) in calls_in_ctx(ai) if isinstance(c.func, ast.Name) and c.func.id == 'PendingIntEntry']
        R.need(len(mk) == 1, f'{nodeq}.append_interest: PendingIntEntry(...) not found')
        mutable_params = set()
        for a in ai.f.node.args.args:
            mc_ = P.ann_class(ai.f.mod, a.annotation) if a.annotation is not None else None
            if mc_ and mc_ in P.classes and mc_[1] in ('InterestParam', 'MetaInfo', 'SignatureInfo'):
                mutable_params.add(a.arg)
        inst = f'{nodeq}.append_interest :: entry stores values, not the parameter object'
        alias = [a for a in list(mk[0].args) + [k.value for k in mk[0].keywords] if isinstance(a, ast.Name) and a.id in mutable_params]
        if alias:
            R.fail('C03.PRV.3', inst, ai.qual, mk[0], f'the pending entry keeps a reference to the caller\'s `{alias[0].id}` object: matching is decided by whatever the '
                   'application has stored in it when Data arrives, not by what was sent', site(ai, mk[0]))
        else:
            R.ok('C03.PRV.3', inst, site(ai, mk[0]), f'{len(mk[0].args)} scalar arguments')
    # siblings
    R.ob('C03.SIB.1', 'v1 and v2 matching tables are equal')
    if tables['v1'] == tables['v2']:
        R.ok('C03.SIB.1', 'InterestTreeNode.satisfy v1 vs v2', '', '16 rows equal')
    else:
        diff = [k for k in tables['v1'] if tables['v1'][k] != tables['v2'][k]]
        R.fail('C03.SIB.1', 'InterestTreeNode.satisfy v1 vs v2', 'ndn.name_tree.InterestTreeNode.satisfy', 'def satisfy',
               f'v1 and v2 disagree on {len(diff)} row(s), e.g. {diff[0]}', '')
    # MPT.2 done-guard after await
    R.ob('C03.MPT.2', 'v2 PendingIntEntry.satisfy: completion is re-guarded after the validator await')
    done_guard_after_await(R, 'C03.MPT.2', ctx(R, 'ndn.appv2.PendingIntEntry.satisfy'))
    R.assumptions += ['asyncio.wait_for raises TimeoutError on expiry and propagates the future\'s exception otherwise',
                      'pygtrie prefixes() yields every stored prefix of the key',
                      'timing (arrival before the deadline) is not decided']
