"""C08 — TLV models encode to exact, minimal TLV and decode back (structural part). DESIGN §4 C08."""
import ast

from .common import ctx, returns, calls_in_ctx, reach_from_succ, site, srcs_text, stale_measures, orient
from ..flow import callee_attr
from ..linexpr import show, NotLinear
from ..loader import AnalysisError, norm
from ..models import models_of, TLV
from ..sizeexec import run as size_run
from ..tlvtables import varnum_tables, compare_varnum, uint_tables, compare_uint

TM = 'ndn.encoding.tlv_model'
FIELD_CLASSES = ['ProcedureArgument', 'UintField', 'BoolField', 'SignatureValueField', 'InterestNameField', 'NameField', 'BytesField',
                 'ModelField', 'RepeatedField', 'MapField']
SIZ1B = ['UintField', 'BoolField', 'BytesField', 'ModelField', 'SignatureValueField', 'NameField', 'ProcedureArgument']


def value_normalisations(fn, val='val'):
    """{(guard text, rhs text)} of reassignments `val = f(val)` in fn (normalisations applied to the value before it is measured/written)"""
    out = set()

    def walk(stmts, guard):
        for s in stmts:
            if isinstance(s, ast.If):
                walk(s.body, guard + (ast.unparse(s.test),))
                walk(s.orelse, guard + ('not ' + ast.unparse(s.test),))
            elif isinstance(s, ast.Assign) and len(s.targets) == 1 and isinstance(s.targets[0], ast.Name) and s.targets[0].id == val \
                    and any(isinstance(x, ast.Name) and x.id == val for x in ast.walk(s.value)):
                g = tuple(t for t in guard if 'isinstance' in t)
                out.add((g, ast.unparse(s.value)))
            elif isinstance(s, (ast.For, ast.While, ast.With, ast.Try)):
                walk(getattr(s, 'body', []), guard)
    walk(fn.body, ())
    return out


def size_rules(R, prefix):
    """SIZ.1a / SIZ.1b over every Field subclass (shared with C01)"""
    P = R.P
    M = models_of(P)
    R.ob(prefix + '.SIZ.1a', 'every Field: a normalisation of the value applied before measuring it is also applied before writing it (and vice versa)')
    R.ob(prefix + '.SIZ.1b', 'every Field (straight-line bodies): announced size == returned/advanced size as linear expressions over TL(x), len(x)')
    # type numbers per field class over all shipped models (for folding TL(self.type_num) of the packet-format-only fields)
    types_by_kind = {}

    def visit(f):
        types_by_kind.setdefault(f.kind, set()).add(f.type)
        for sub in (f.elem, f.key, f.value):
            if sub is not None:
                visit(sub)
    for fields in M.all.values():
        for f in fields:
            visit(f)
    for cls in FIELD_CLASSES:
        ql, qe = f'{TM}.{cls}.encoded_length', f'{TM}.{cls}.encode_into'
        if ql not in P.funcs or qe not in P.funcs:
            if cls == 'ProcedureArgument':
                raise AnalysisError(f'{cls}: encoded_length / encode_into not found')
            raise AnalysisError(f'anchor vanished: {ql} / {qe}')
        fl, fe = P.func(ql), P.func(qe)
        R.touch(fl, fe)
        na, nb = value_normalisations(fl.node), value_normalisations(fe.node)
        inst = f'{TM}.{cls} :: value normalisations'
        # a method that reads the preprocessed value back from the markers needs no normalisation of its own
        reads_pre = any(isinstance(x, ast.Subscript) and ast.unparse(x.value) == 'markers' and 'preprocessed' in ast.unparse(x.slice)
                        for x in ast.walk(fe.node))
        if na == nb or (reads_pre and not nb):
            R.ok(prefix + '.SIZ.1a', inst, fl.loc(), f'{sorted(na)}')
        else:
            only_e = sorted(nb - na)
            only_l = sorted(na - nb)
            R.fail(prefix + '.SIZ.1a', inst, qe if only_e else ql, 'def encode_into' if only_e else 'def encoded_length',
                   f'{cls}: the value is normalised by {only_e or only_l} in {"encode_into" if only_e else "encoded_length"} only: the size '
                   'announced is measured on a different representation than the one written (e.g. text vs its UTF-8 bytes)', fl.loc())
        if cls in SIZ1B:
            inst = f'{TM}.{cls} :: size identity'
            try:
                a = size_run(fl.node)
                b = size_run(fe.node, a.markers)
            except NotLinear as e:
                raise AnalysisError(f'{cls}: size transformer cannot follow `{e}`')

            def fold(d):
                # TL(self.type_num) -> constant when every shipped instance of this class has a 1-byte type number
                ts = types_by_kind.get(cls, set())
                if cls in ('SignatureValueField', 'NameField', 'InterestNameField') and ts and all(0 <= t <= 252 for t in ts):
                    out = {}
                    for k, v in d.items():
                        if k == 'get_tl_num_size(self.type_num)':
                            out[1] = out.get(1, 0) + v
                        else:
                            out[k] = out.get(k, 0) + v
                    return {k: v for k, v in out.items() if v}
                return d
            ra, rb = fold(a.ret or {}), fold(b.ret or {})
            adv = fold(getattr(b, 'written', None) or b.offset or {})
            if ra != rb:
                R.fail(prefix + '.SIZ.1b', inst, qe, 'def encode_into', f'{cls}: encoded_length announces `{show(ra)}` but encode_into reports `{show(rb)}`',
                       fe.loc())
            elif adv and adv != rb and any(k != 1 for k in adv) and cls in ('BytesField', 'ModelField', 'SignatureValueField'):
                R.fail(prefix + '.SIZ.1b', inst, qe, 'def encode_into', f'{cls}: bytes written `{show(adv)}` differ from the size reported `{show(rb)}`', fe.loc())
            else:
                R.ok(prefix + '.SIZ.1b', inst, fl.loc(), show(ra))
        elif cls in ('RepeatedField', 'MapField', 'InterestNameField'):
            # loops: both methods iterate the same collection and delegate to the element methods
            inst = f'{TM}.{cls} :: element-wise agreement'
            la = [ast.unparse(x.iter) for x in ast.walk(fl.node) if isinstance(x, ast.For)]
            lb = [ast.unparse(x.iter) for x in ast.walk(fe.node) if isinstance(x, ast.For)]
            if cls == 'InterestNameField':
                ok = bool(la) and bool(lb)
            else:
                ok = la == lb and len(la) == 1
                ca = sorted(ast.unparse(c.func) for c in ast.walk(fl.node) if isinstance(c, ast.Call) and callee_attr(c) == 'encoded_length')
                cb = sorted(ast.unparse(c.func) for c in ast.walk(fe.node) if isinstance(c, ast.Call) and callee_attr(c) == 'encode_into')
                ok = ok and [x.rsplit('.', 1)[0] for x in ca] == [x.rsplit('.', 1)[0] for x in cb] and bool(ca)
                if any(isinstance(x, (ast.Break, ast.Continue)) for x in ast.walk(fl.node)) or any(isinstance(x, (ast.Break, ast.Continue)) for x in ast.walk(fe.node)):
                    ok = False
            if ok:
                R.ok(prefix + '.SIZ.1b', inst, fl.loc(), f'loops over {la}')
            else:
                R.fail(prefix + '.SIZ.1b', inst, qe, 'def encode_into', f'{cls}: encoded_length iterates {la} but encode_into iterates {lb} (or different element methods)', fe.loc())
            if cls != 'InterestNameField':
                # the element field caches what it measured under its *name* (markers[f'{name}##..']): the name given to it before each
                # element is measured must be given again, by the same template, before that element is written
                def naming(fn_, meth):
                    out = {}
                    for lp in [x for x in ast.walk(fn_) if isinstance(x, ast.For)]:
                        cur = {}
                        for st_ in lp.body:
                            for a_ in ([st_] if isinstance(st_, ast.Assign) else []) + [x_ for x_ in ast.walk(st_) if isinstance(x_, ast.Assign) and x_ is not st_]:
                                for tg_ in a_.targets:
                                    if isinstance(tg_, ast.Attribute) and tg_.attr == 'name' and ast.unparse(tg_.value).startswith('self.'):
                                        cur[ast.unparse(tg_.value)] = ast.unparse(a_.value)
                            for c_ in ast.walk(st_):
                                if isinstance(c_, ast.Call) and callee_attr(c_) == meth and ast.unparse(c_.func.value).startswith('self.'):
                                    out[ast.unparse(c_.func.value)] = cur.get(ast.unparse(c_.func.value))
                    return out
                na_, nb_ = naming(fl.node, 'encoded_length'), naming(fe.node, 'encode_into')
                # ... and the sub-fields of one entry (key / value of a map) get names of their own: what one caches under its name
                # (markers[f'{name}##encoded_length']) must not be overwritten by the other before it is read back
                for (pass_, nm_, q_) in (('encoded_length', na_, ql), ('encode_into', nb_, qe)):
                    subs_ = [k_ for k_ in sorted(nm_) if nm_[k_] is not None]
                    for i_ in range(len(subs_)):
                        for j_ in range(i_ + 1, len(subs_)):
                            if nm_[subs_[i_]] == nm_[subs_[j_]]:
                                R.fail(prefix + '.SIZ.1b', f'{TM}.{cls} :: {subs_[i_]} and {subs_[j_]} are named apart', q_, 'def ' + pass_,
                                       f'{cls}.{pass_}: {subs_[i_]} and {subs_[j_]} are both named `{nm_[subs_[i_]]}` for the same entry: both cache the width / length '
                                       'they measured under that name, the second overwrites the first, and the first is then written with the other\'s size '
                                       '(e.g. {1: 300} - a one-octet key written with the two-octet width of the value)', (fl if pass_ == 'encoded_length' else fe).loc())
                for sub_ in sorted(set(na_) | set(nb_)):
                    inst2 = f'{TM}.{cls} :: {sub_} is named per element before it is measured and before it is written'
                    if na_.get(sub_) is not None and na_.get(sub_) == nb_.get(sub_):
                        R.ok(prefix + '.SIZ.1b', inst2, fl.loc(), na_[sub_])
                    elif na_.get(sub_) is None and nb_.get(sub_) is None:
                        R.ok(prefix + '.SIZ.1b', inst2, fl.loc(), 'no per-element name in either pass')
                    else:
                        R.fail(prefix + '.SIZ.1b', inst2, qe if nb_.get(sub_) is None else ql, 'def encode_into' if nb_.get(sub_) is None else 'def encoded_length',
                               f'{cls}: {sub_} is measured under the name `{na_.get(sub_)}` but written under `{nb_.get(sub_)}`: the size cached for one element '
                               '(e.g. the width of an integer key) is looked up for another, so the bytes written differ from the size announced', fe.loc())


def stale_rule(R, prefix):
    """SIZ.1c over every function that sizes a length number"""
    P = R.P
    R.ob(prefix + '.SIZ.1c', 'a length number is sized (get_tl_num_size) on the value finally announced: no redefinition of the measured variable between '
                             'the measurement and a return that depends on it')
    n = 0
    for q, f in sorted(P.funcs.items()):
        if not (f.mod.startswith('ndn.encoding.') or f.mod in ('ndn.appv2', 'ndn.app_support.security_v2', 'ndn.app_support.nfd_mgmt')):
            continue
        if isinstance(f.node, ast.Lambda) or not any(isinstance(c, ast.Call) and callee_attr(c) == 'get_tl_num_size' or
                                                      isinstance(c, ast.Call) and isinstance(c.func, ast.Name) and c.func.id == 'get_tl_num_size'
                                                      for c in ast.walk(f.node)):
            continue
        if q.endswith('tlv_var.get_tl_num_size'):
            continue
        cx = ctx(R, q)
        n += 1
        bad = stale_measures(cx)
        inst = q + ' :: length sized on the announced value'
        if bad:
            for (c, v, r) in bad:
                R.fail(prefix + '.SIZ.1c', inst, q, c, f'`{ast.unparse(c)}` sizes `{v}` before `{v}` is changed again; the value returned by '
                       f'`{norm(r.ast)}` uses the later `{v}`: the Length number may need more bytes than were reserved', site(cx, c))
        else:
            R.ok(prefix + '.SIZ.1c', inst, site(cx, cx.f.node))
    R.minimum(prefix + '.SIZ.1c', 12)


MUTATORS = {'append', 'extend', 'insert', 'update', 'setdefault', 'add', 'pop', 'clear', 'remove'}


def _fresh(e):
    return (isinstance(e, (ast.List, ast.Dict, ast.Set)) and not (getattr(e, 'elts', None) or getattr(e, 'keys', None))) or \
        (isinstance(e, ast.Call) and isinstance(e.func, ast.Name) and e.func.id in ('list', 'dict', 'set', 'OrderedDict') and not e.args)


def _mutable_literal(e):
    return isinstance(e, (ast.List, ast.Dict, ast.Set, ast.ListComp, ast.DictComp, ast.SetComp)) or \
        (isinstance(e, ast.Call) and isinstance(e.func, ast.Name) and e.func.id in ('list', 'dict', 'set', 'bytearray', 'OrderedDict'))


def ownership_rule(R, oid):
    """a container that a decoder fills in place belongs to the instance being decoded (never to the field descriptor, which is
    shared by every instance of the model class)"""
    P = R.P
    n_mut = 0
    for cls in FIELD_CLASSES:
        for meth in ('parse_from', 'parse_value'):
            q = f'{TM}.{cls}.{meth}'
            if q not in P.funcs:
                continue
            cx = ctx(R, q)
            # locals bound to self.get_value(instance) / self.__get__(instance, ...) that are mutated in place
            holders = {}
            for n in cx.cfg.nodes:
                for (nm, v) in cx.cfg.defs_of(n):
                    if isinstance(v, ast.Call) and callee_attr(v) in ('get_value', '__get__') and ast.unparse(v.func.value) == 'self':
                        holders[nm] = v
                    elif isinstance(v, ast.Attribute) and ast.unparse(v) == 'self.default':
                        holders[nm] = v
            mutated = set()
            for n in cx.cfg.nodes:
                for c in n.calls():
                    if callee_attr(c) in MUTATORS and isinstance(c.func.value, ast.Name) and c.func.value.id in holders:
                        mutated.add(c.func.value.id)
                if n.kind == 'stmt' and isinstance(n.ast, (ast.Assign, ast.AugAssign)):
                    for t in (n.ast.targets if isinstance(n.ast, ast.Assign) else [n.ast.target]):
                        if isinstance(t, ast.Subscript) and isinstance(t.value, ast.Name) and t.value.id in holders:
                            mutated.add(t.value.id)
            for nm in sorted(mutated):
                n_mut += 1
                inst = f'{q} :: `{nm}` filled in place'
                src = holders[nm]
                if isinstance(src, ast.Attribute):
                    R.fail(oid, inst, q, src, f'{cls}.{meth} fills `self.default` in place: every instance of the model class shares it', site(cx, src))
                    continue
                gm = P.find_member(TM, cls, 'get_value')
                if gm is None or gm[0] != 'method':
                    raise AnalysisError(f'{cls}.get_value not resolved')
                gq = f'{gm[1]}.{gm[2]}.get_value'
                gx = ctx(R, gq)
                rets = returns(gx)
                inst_param = gx.f.node.args.args[1].arg if len(gx.f.node.args.args) > 1 else 'instance'
                slot = f'{inst_param}.__dict__[self.name]'
                own = all(r.ast.value is not None and ast.unparse(r.ast.value) == slot for r in rets) and bool(rets)
                fresh = [n for n in gx.cfg.nodes if n.kind == 'stmt' and isinstance(n.ast, ast.Assign) and ast.unparse(n.ast.targets[0]) == slot]
                shared = any('self.default' in ast.unparse(r.ast.value) for r in rets if r.ast.value is not None)
                if own and fresh and all(_fresh(n.ast.value) for n in fresh) and not shared:
                    R.ok(oid, inst, site(gx, gx.f.node), f'{gq} creates a fresh container per instance')
                else:
                    R.fail(oid, inst, gq, 'def get_value', f'{cls}.{meth} fills the container returned by {gq} in place, but that method may hand out '
                           'an object stored on the field (`self.default`) or not owned by the instance: all decoded instances of a model class then share one '
                           'container', site(gx, gx.f.node))
    R.need(n_mut >= 2, f"only {n_mut} in-place container fills found in the Field decoders (RepeatedField.parse_from, MapField.parse_value confirmed)")
    # no Field class stores a mutable literal as its default
    for cls in FIELD_CLASSES + ['Field']:
        q = f'{TM}.{cls}.__init__'
        if q not in P.funcs:
            continue
        cx = ctx(R, q)
        inst = f'{q} :: default is not a shared mutable object'
        bad = None
        for (n, c) in calls_in_ctx(cx, attr='__init__'):
            for a in list(c.args) + [k.value for k in c.keywords]:
                if _mutable_literal(a):
                    bad = a
        for n in cx.cfg.nodes:
            if n.kind == 'stmt' and isinstance(n.ast, ast.Assign) and ast.unparse(n.ast.targets[0]) == 'self.default' and _mutable_literal(n.ast.value):
                bad = n.ast.value
        for d in cx.f.node.args.defaults + [d for d in cx.f.node.args.kw_defaults if d is not None]:
            if _mutable_literal(d):
                bad = d
        if bad is not None:
            gm = P.find_member(TM, cls, 'get_value')
            gx = ctx(R, f'{gm[1]}.{gm[2]}.get_value') if gm and gm[0] == 'method' else None
            if gx is not None and not any('self.default' in ast.unparse(r.ast.value) for r in returns(gx) if r.ast.value is not None):
                R.ok(oid, inst, site(cx, cx.f.node), 'mutable default never handed out')
                continue
        if bad is not None:
            R.fail(oid, inst, q, bad, f'{cls} stores the mutable object `{ast.unparse(bad)}` as the field default: it is one object per field, handed to every instance', site(cx, bad))
        else:
            R.ok(oid, inst, site(cx, cx.f.node))


def run(R):
    P = R.P
    M = models_of(P)
    # ------------------------------------------------------------------ TBL.1 / TBL.2
    R.ob('C08.TBL.1', 'get_tl_num_size, write_tl_num, parse_tl_num and read_tl_num_from_stream implement the VAR-NUMBER table (shortest form)')
    tabs = varnum_tables(P, ('get_tl_num_size', 'write_tl_num', 'parse_tl_num'))
    for (what, a, b, okay, detail) in compare_varnum(tabs, only=('get_tl_num_size', 'write_tl_num', 'parse_tl_num')):
        inst = f'{a} :: {what}'
        if okay:
            R.ok('C08.TBL.1', inst, tabs[a]['site'], detail)
        else:
            R.fail('C08.TBL.1', inst, 'ndn.encoding.tlv_var.' + a, what, f'{a} departs from the VAR-NUMBER table in {what}: {detail}', tabs[a]['site'])
    R.ob('C08.TBL.2', 'NonNegativeInteger: pack_uint_bytes, UintField.encoded_length / encode_into / parse_from agree on widths 1,2,4,8 (smallest legal)')
    ut = uint_tables(P)
    for (what, a, b, okay, detail) in compare_uint(ut):
        inst = f'{a} :: {what}'
        if okay:
            R.ok('C08.TBL.2', inst, ut[a]['site'], detail)
        else:
            R.fail('C08.TBL.2', inst, ut[a]['qual'], what, f'{a} departs from the NonNegativeInteger table in {what}: {detail}', ut[a]['site'])
    # fixed_len overflow raises; marker of the chosen width is what encode_into reads
    ue = ctx(R, TM + '.UintField.encoded_length')
    inst = ue.qual + ' :: value must fit the chosen width'
    ovf = [t for t in ue.cfg.nodes if t.kind == 'test' and orient(t.ast, lambda e: isinstance(e, ast.Name) and e.id == 'val') is not None
           and ast.unparse(orient(t.ast, lambda e: isinstance(e, ast.Name) and e.id == 'val')) in (
               'val >= 256 ** ret', 'val >= 0x100 ** ret', 'val >= 2 ** (8 * ret)', 'val >= 1 << 8 * ret', 'val > 256 ** ret - 1')]
    if ovf and not reach_from_succ(ue.cfg, ovf[0], True, follow_exc=False) - {n.id for n in ue.cfg.nodes if n.kind == 'raise'}:
        R.ok('C08.TBL.2', inst, site(ue, ovf[0].ast))
    else:
        R.fail('C08.TBL.2', inst, ue.qual, 'def encoded_length', 'a value too large for fixed_len is not refused', site(ue, ue.f.node))
    neg = [t for t in ue.cfg.nodes if t.kind == 'test' and ast.unparse(t.ast) in ('val < 0',)]
    inst = ue.qual + ' :: negative / non-integer refused'
    if neg:
        R.ok('C08.TBL.2', inst, site(ue, neg[0].ast))
    else:
        R.fail('C08.TBL.2', inst, ue.qual, 'def encoded_length', 'negative values are not refused', site(ue, ue.f.node))
    # ------------------------------------------------------------------ SIZ.1
    size_rules(R, 'C08')
    stale_rule(R, 'C08')
    # ------------------------------------------------------------------ ORD.1 the measuring pass comes before the writing pass
    R.ob('C08.ORD.1', 'TlvModel.encode: no field is written before the measuring pass has run over these markers (encoded_length fills the per-field '
                      'entries - widths, inner lengths - that encode_into reads back), unless the markers say it already has')
    ex = ctx(R, TM + '.TlvModel.encode')
    writes_ = [n for (n, c) in calls_in_ctx(ex, attr='encode_into')]
    measures_ = [n for (n, c) in calls_in_ctx(ex, attr='encoded_length') if ast.unparse(c.func.value) == 'self']
    done_edges = set()
    for t in ex.cfg.nodes:
        if t.kind == 'test' and '##encoded_length' in ast.unparse(t.ast):
            e_ = t.ast
            if isinstance(e_, ast.Compare) and len(e_.ops) == 1 and isinstance(e_.ops[0], (ast.In, ast.NotIn)):
                done_edges.add((t.id, isinstance(e_.ops[0], ast.In)))
    inst = TM + '.TlvModel.encode :: encoded_length(markers) before the first encode_into'
    if not writes_:
        raise AnalysisError('TlvModel.encode: no encode_into call found')
    if any(w.id in ex.cfg.reachable(removed_nodes={n.id for n in measures_}, removed_edges=done_edges) for w in writes_):
        R.fail('C08.ORD.1', inst, ex.qual, writes_[0].ast, 'a field can be written although encoded_length(markers) has not been run over these markers (and they do not '
               'carry the total that says it has): encode_into then reads back entries the measuring pass never made - encoding into a caller-supplied buffer '
               'of the announced size fails (KeyError) or writes with stale widths', site(ex, writes_[0].ast))
    else:
        R.ok('C08.ORD.1', inst, site(ex, writes_[0].ast))
    # ------------------------------------------------------------------ LOP.1
    R.ob('C08.LOP.1', 'encoded_length, encode and parse walk the same _encoded_fields list in order; the metaclass collects fields in class-body order')
    for meth in ('encoded_length', 'encode', '__eq__'):
        cx = ctx(R, f'{TM}.TlvModel.{meth}')
        loops = [n for n in cx.cfg.nodes if n.kind == 'for']
        inst = f'{cx.qual} :: iterates every field in order'
        ok = len(loops) == 1 and ast.unparse(loops[0].ast.iter) == 'self._encoded_fields' and not any(
            isinstance(x, (ast.Break, ast.Continue)) for x in ast.walk(loops[0].ast))
        if ok and meth == 'encoded_length':
            ok = any(isinstance(x, ast.AugAssign) and 'field.encoded_length(field.get_value(self), markers)' in ast.unparse(x.value) for x in ast.walk(loops[0].ast))
        if ok and meth == 'encode':
            ok = any(isinstance(x, ast.AugAssign) and ast.unparse(x.target) == 'offset' and 'field.encode_into(field.get_value(self), markers, wire_view, offset)' in ast.unparse(x.value)
                     for x in ast.walk(loops[0].ast))
        if not ok and not loops and meth == '__eq__':
            # the comparison written with a quantifier: all(.. for field in self._encoded_fields) / not any(..), no filter
            q_ = [g for x in ast.walk(cx.f.node) if isinstance(x, ast.Call) and isinstance(x.func, ast.Name) and x.func.id in ('all', 'any') and len(x.args) == 1
                  and isinstance(x.args[0], (ast.GeneratorExp, ast.ListComp)) for g in [x.args[0]]]
            if len(q_) == 1 and len(q_[0].generators) == 1 and ast.unparse(q_[0].generators[0].iter) == 'self._encoded_fields' and not q_[0].generators[0].ifs:
                R.ok('C08.LOP.1', inst, site(cx, cx.f.node), 'quantifier over self._encoded_fields')
                continue
        if ok:
            R.ok('C08.LOP.1', inst, site(cx, loops[0].ast))
        else:
            R.fail('C08.LOP.1', inst, cx.qual, loops[0].ast if loops else 'def ' + meth, f'TlvModel.{meth} does not visit every field of _encoded_fields once, in order, '
                   'with the field value', site(cx, cx.f.node))
    en = ctx(R, TM + '.TlvModel.encode')
    inst = en.qual + ' :: buffer allocated with the announced length'
    al = [v for n in en.cfg.nodes for (nm, v) in en.cfg.defs_of(n) if nm == 'wire' and isinstance(v, ast.Call) and ast.unparse(v.func) == 'bytearray']
    ld = [v for n in en.cfg.nodes for (nm, v) in en.cfg.defs_of(n) if nm == 'length' and isinstance(v, ast.AST)]
    if len(al) == 1 and ast.unparse(al[0].args[0]) == 'length' and sorted(ast.unparse(v) for v in ld) == ["markers['##encoded_length']", 'self.encoded_length(markers)']:
        R.ok('C08.LOP.1', inst, site(en, al[0]))
    else:
        R.fail('C08.LOP.1', inst, en.qual, al[0] if al else 'def encode', 'the output buffer is not sized by encoded_length(markers)', site(en, en.f.node))
    mc = ctx(R, TM + '.TlvModelMeta.__new__')
    inst = mc.qual + ' :: fields collected in declaration order, overrides keep their position'
    lp = [n for n in mc.cfg.nodes if n.kind == 'for' and ast.unparse(n.ast.iter) in ('cls.__dict__', 'attrs', 'cls.__dict__.keys()', 'attrs.keys()')]
    apps = [c for (n, c) in calls_in_ctx(mc, attr='append') if ast.unparse(c.func.value) == 'cls._encoded_fields']
    def _is_repl(n):
        if n.kind != 'stmt' or not isinstance(n.ast, ast.Assign) or not isinstance(n.ast.targets[0], ast.Subscript) \
                or ast.unparse(n.ast.targets[0].value) != 'cls._encoded_fields':
            return False
        sl = n.ast.targets[0].slice
        if ast.unparse(sl).startswith('index_dict['):
            return True
        # the remembered position read into a local first (`pos = index_dict.get(name)`)
        return isinstance(sl, ast.Name) and any(s_.kind == 'expr' and 'index_dict' in ast.unparse(s_.expr) for s_ in mc.sources(n, sl))
    repl = [n for n in mc.cfg.nodes if _is_repl(n)]
    if len(lp) == 1 and len(apps) == 2 and len(repl) == 2 and not any(isinstance(x, ast.Call) and callee_attr(x) in ('sort', 'sorted', 'reverse', 'insert') for x in ast.walk(mc.f.node)):
        R.ok('C08.LOP.1', inst, site(mc, lp[0].ast))
    else:
        R.fail('C08.LOP.1', inst, mc.qual, 'def __new__', 'the metaclass does not build _encoded_fields in class-body order (append new, replace overridden in place)', site(mc, mc.f.node))
    # ------------------------------------------------------------------ FLD.2 shipped-model lint
    R.ob('C08.FLD.2', 'every shipped model: sibling wire fields have distinct type numbers, nested models resolve, nesting is acyclic')
    graph = {}
    nmodels = 0
    for mc_, fields in sorted(M.all.items()):
        nmodels += 1
        q = f'{mc_[0]}.{mc_[1]}'
        seen = {}
        dup = []
        for f in fields:
            if not f.wire:
                continue
            if f.type in seen:
                dup.append((seen[f.type], f.name, f.type))
            seen[f.type] = f.name
        inst = f'{q} :: distinct type numbers'
        path = P.path_of(mc_[0])
        if dup:
            R.fail('C08.FLD.2', inst, q, 'class ' + mc_[1], f'fields {dup[0][0]} and {dup[0][1]} share type number 0x{dup[0][2]:x}: the second can never be decoded', path)
        else:
            R.ok('C08.FLD.2', inst, path, f'{len(seen)} wire fields')
        edges = set()
        for f in fields:
            for g in (f, f.elem, f.value):
                if g is not None and g.kind == 'ModelField':
                    if g.nested is None or not M.is_model(g.nested):
                        R.fail('C08.FLD.2', f'{q}.{f.name} :: nested model', q, f.name, f'ModelField {f.name} does not name a TlvModel', path)
                    else:
                        edges.add(g.nested)
        graph[mc_] = edges
    R.need(nmodels >= 60, f'only {nmodels} models extracted (63 confirmed by hand)')
    # acyclic
    state = {}

    def dfs(u, stack):
        state[u] = 1
        for v in graph.get(u, ()):
            if state.get(v) == 1:
                return stack + [v]
            if state.get(v) is None:
                r = dfs(v, stack + [v])
                if r:
                    return r
        state[u] = 2
        return None
    cyc = None
    for u in graph:
        if state.get(u) is None:
            cyc = cyc or dfs(u, [u])
    if cyc:
        R.fail('C08.FLD.2', 'model nesting :: acyclic', f'{cyc[0][0]}.{cyc[0][1]}', 'class ' + cyc[0][1], f'model nesting cycle {[c[1] for c in cyc]} (decode recursion unbounded)', '')
    else:
        R.ok('C08.FLD.2', 'model nesting :: acyclic', P.path_of(TM), f'{nmodels} models')
    R.extra['models'] = nmodels
    # ------------------------------------------------------------------ critical-bit rule and scan (shared with C07.TBL.2)
    from .c07 import scan_loop_rules, map_value_rule
    R.ob('C08.TBL.3', 'decoding: unknown non-critical elements are skipped anywhere; unknown / repeated / out-of-order critical ones raise DecodeError')
    scan_loop_rules(R, 'C08.TBL.3')
    R.ob('C08.PRV.1', 'a container filled in place by a decoder is created per instance (get_value never hands out storage kept on the shared field descriptor)')
    ownership_rule(R, 'C08.PRV.1')
    R.ob('C08.MPT.1', 'the value element of a map entry is type-checked before it is parsed as the value')
    map_value_rule(R, 'C08.MPT.1')
    R.assumptions += ['struct format widths B/H/I/Q = 1/2/4/8', 'equality after decode for all values and generated model classes is not decided']
