"""C02 — signatures and parameter digests cover the specified bytes (structural part). DESIGN §4 C02."""
import ast

from .common import ctx, returns, calls_in_ctx, reach_from_succ, site, srcs_text, const_bool, comes_from, expr_texts, full_text, shared_obligations
from ..flow import callee_attr
from ..linexpr import lin, NotLinear
from ..loader import AnalysisError, norm
from ..models import models_of

F3 = 'ndn.encoding.ndn_format_0_3'
TM = 'ndn.encoding.tlv_model'
KV = 'ndn.security.validator.known_key_validator'
DV = 'ndn.security.validator.digest_validator'


def between(fields, a, b):
    names = [f.name for f in fields]
    i, j = names.index(a), names.index(b)
    return [f for f in fields[i + 1:j] if f.wire]


def run(R):
    P = R.P
    M = models_of(P)
    # ------------------------------------------------------------------ FLD.1 marker placement
    R.ob('C02.FLD.1', 'offset markers sit so that the signed portion is Name..SignatureInfo (Data) / ApplicationParameters..SignatureInfo (Interest) '
                      'and the digest portion ApplicationParameters..end of Interest')
    d = M.fields(F3 + '.DataPacketValue')
    i = M.fields(F3 + '.InterestPacketValue')
    path = P.path_of(F3)

    def names(fs):
        return [f.name for f in fs]
    try:
        dn = names(d)
        before = [f for f in d[:dn.index('_sig_cover_start')] if f.wire]
        mid = [f.type for f in between(d, '_sig_cover_start', 'signature_value')]
        inst = 'DataPacketValue :: signed portion'
        if before:
            R.fail('C02.FLD.1', inst, F3 + '.DataPacketValue', '_sig_cover_start', f'{[f.name for f in before]} precede the start of the signed portion (Name must be covered)', path)
        elif mid != [0x07, 0x14, 0x15, 0x16]:
            R.fail('C02.FLD.1', inst, F3 + '.DataPacketValue', '_sig_cover_start', f'signed portion covers types {[hex(t) for t in mid]}, the format says Name, MetaInfo, Content, SignatureInfo', path)
        else:
            R.ok('C02.FLD.1', inst, path, '[0x7, 0x14, 0x15, 0x16]')
        mid = [f.type for f in between(i, '_sig_cover_start', 'signature_value')]
        inst = 'InterestPacketValue :: signed portion (after the name)'
        if mid != [0x24, 0x2c]:
            R.fail('C02.FLD.1', inst, F3 + '.InterestPacketValue', '_sig_cover_start', f'signed portion covers types {[hex(t) for t in mid]}, the format says ApplicationParameters, InterestSignatureInfo', path)
        else:
            R.ok('C02.FLD.1', inst, path, '[0x24, 0x2c]')
        mid = [f.type for f in between(i, '_digest_cover_start', '_digest_cover_end')]
        after = [f.name for f in i[names(i).index('_digest_cover_end') + 1:] if f.wire]
        inst = 'InterestPacketValue :: parameters-digest portion'
        if mid != [0x24, 0x2c, 0x2e] or after:
            R.fail('C02.FLD.1', inst, F3 + '.InterestPacketValue', '_digest_cover_start', f'digest portion covers types {[hex(t) for t in mid]} (fields after it: {after}); '
                   'the format says ApplicationParameters to the end of the Interest', path)
        else:
            R.ok('C02.FLD.1', inst, path, '[0x24, 0x2c, 0x2e], nothing after')
    except ValueError as e:
        raise AnalysisError(f'marker fields missing from the packet models: {e}')
    # ------------------------------------------------------------------ PRV.1 wiring of the signature field
    R.ob('C02.PRV.1', 'SignatureValueField and InterestNameField are wired to the model\'s own signer / covered-part / start / buffer / shrink arguments')
    for q, fields in ((F3 + '.DataPacketValue', d), (F3 + '.InterestPacketValue', i)):
        sv = next(f for f in fields if f.name == 'signature_value')
        kw = {k.arg: ast.unparse(k.value) for k in sv.call.keywords}
        want = {'signer': '_signer', 'covered_part': '_sig_cover_part', 'starting_point': '_sig_cover_start', 'value_buffer': '_sig_value_buf', 'shrink_len': '_shrink_len'}
        inst = f'{q}.signature_value :: arguments'
        own = {f.name for f in fields}
        if kw == want and set(want.values()) <= own:
            R.ok('C02.PRV.1', inst, path)
        else:
            R.fail('C02.PRV.1', inst, q, 'signature_value', f'SignatureValueField wired as {kw}', path)
    nf = next(f for f in i if f.name == 'name')
    kw = {k.arg: ast.unparse(k.value) for k in nf.call.keywords}
    inst = 'InterestPacketValue.name :: shares the covered list and the digest buffer'
    if kw.get('need_digest') == '_need_digest' and kw.get('signature_covered_part') == '_sig_cover_part' and kw.get('digest_buffer') == '_digest_buf':
        R.ok('C02.PRV.1', inst, path)
    else:
        R.fail('C02.PRV.1', inst, F3 + '.InterestPacketValue', 'name', f'InterestNameField wired as {kw}', path)
    # ------------------------------------------------------------------ ORD.1 covered slice taken at the right offsets
    R.ob('C02.ORD.1', 'SignatureValueField: encode appends wire[start:offset] before writing its own TLV; parse covers up to the start of the SignatureValue TLV')
    ei = ctx(R, TM + '.SignatureValueField.encode_into')
    pf = ctx(R, TM + '.SignatureValueField.parse_from')
    apps = [(n, c) for (n, c) in calls_in_ctx(ei, attr='append') if comes_from(ei, n, c.func.value, 'covered_part.get_arg(markers)')]
    adv = [n for n in ei.cfg.nodes if n.kind == 'stmt' and isinstance(n.ast, ast.AugAssign) and ast.unparse(n.ast.target) == 'offset']
    inst = ei.qual + ' :: covered slice'
    if len(apps) != 1:
        raise AnalysisError('SignatureValueField.encode_into: covered-part append not found')
    (an, ac) = apps[0]
    if ast.unparse(ac.args[0]) != 'wire[sig_cover_start:offset]':
        R.fail('C02.ORD.1', inst, ei.qual, ac, f'the slice handed to the signer is {ast.unparse(ac.args[0])}, expected wire[start marker:offset]', site(ei, ac))
    elif any(ei.cfg.path_exists(a, an) for a in adv):
        R.fail('C02.ORD.1', inst, ei.qual, ac, 'the covered slice is taken after offset moved into the SignatureValue TLV (the signature would cover its own header)', site(ei, ac))
    else:
        R.ok('C02.ORD.1', inst, site(ei, ac))
    apps = [(n, c) for (n, c) in calls_in_ctx(pf, attr='append') if comes_from(pf, n, c.func.value, 'covered_part.get_arg(markers)')]
    inst = pf.qual + ' :: covered slice'
    if len(apps) != 1:
        raise AnalysisError('SignatureValueField.parse_from: covered-part append not found')
    if ast.unparse(apps[0][1].args[0]) == 'wire[sig_cover_start:offset_btl]':
        R.ok('C02.ORD.1', inst, site(pf, apps[0][1]))
    else:
        R.fail('C02.ORD.1', inst, pf.qual, apps[0][1], f'verifiers are given {ast.unparse(apps[0][1].args[0])}; the signed portion ends where the SignatureValue TLV begins (offset_btl)',
               site(pf, apps[0][1]))
    vb = [c for (n, c) in calls_in_ctx(pf, attr='set_arg') if ast.unparse(c.func.value) == 'self.value_buffer']
    sb = [v for n in pf.cfg.nodes for (nm, v) in pf.cfg.defs_of(n) if nm == 'sig_buffer' and isinstance(v, ast.AST)]
    inst = pf.qual + ' :: signature value buffer'
    if len(vb) == 1 and len(sb) == 1 and ast.unparse(sb[0]) == 'memoryview(wire)[offset:offset + length]':
        R.ok('C02.ORD.1', inst, site(pf, vb[0]))
    else:
        R.fail('C02.ORD.1', inst, pf.qual, vb[0] if vb else 'def parse_from', 'the signature value reported is not wire[offset:offset+length]', site(pf, pf.f.node))
    # ------------------------------------------------------------------ MPT.1 name components covered except the digest
    R.ob('C02.MPT.1', 'InterestNameField: every name component except the parameters digest is handed to the signer / verifier')
    npf = ctx(R, TM + '.InterestNameField.parse_from')
    lp = [n for n in npf.cfg.nodes if n.kind == 'for']
    ap = [n for (n, c) in calls_in_ctx(npf, attr='append') if comes_from(npf, n, c.func.value, 'covered_part.get_arg(markers)') and ast.unparse(c.args[0]) == ast.unparse(lp[0].ast.target) if lp]
    dt = [t for t in npf.cfg.nodes if t.kind == 'test' and 'TYPE_PARAMETERS_SHA256' in ast.unparse(t.ast)]
    inst = npf.qual + ' :: covered components'
    # a running position kept across the iterations (`pos += len(component)`) must advance on *every* path through the body: an iteration that
    # leaves early (continue) without advancing it shifts every range reported afterwards
    for lp_ in lp:
        tv = {x.id for x in ast.walk(lp_.ast.target) if isinstance(x, ast.Name)}
        adv = {}
        for n_ in npf.cfg.nodes:
            if n_.kind == 'stmt' and isinstance(n_.ast, ast.AugAssign) and isinstance(n_.ast.target, ast.Name) and isinstance(n_.ast.op, ast.Add) \
                    and any(isinstance(x, ast.Name) and x.id in tv for x in ast.walk(n_.ast.value)) and any(n_.ast is x for x in ast.walk(lp_.ast)):
                adv.setdefault(n_.ast.target.id, []).append(n_)
        for var, nodes_ in sorted(adv.items()):
            used = any(isinstance(x, ast.Name) and x.id == var and isinstance(x.ctx, ast.Load) for st_ in lp_.ast.body for x in ast.walk(st_)
                       if not any(x is y for n_ in nodes_ for y in ast.walk(n_.ast)))
            if not used:
                continue
            inst_ = f'{npf.qual} :: running position `{var}` advances in every iteration'
            if lp_.id in reach_from_succ(npf.cfg, lp_, True, removed_nodes={n_.id for n_ in nodes_}, follow_exc=False):
                R.fail('C02.MPT.1', inst_, npf.qual, nodes_[0].ast, f'`{norm(nodes_[0].ast)}` is skipped on some path through the loop body (an early `continue`): the '
                       f'position `{var}` lags behind the components that follow, so the ranges reported as covered by the signature are not the bytes that were signed',
                       site(npf, nodes_[0].ast))
            else:
                R.ok('C02.MPT.1', inst_, site(npf, nodes_[0].ast))
    if len(lp) != 1 or len(ap) != 1 or len(dt) != 1:
        raise AnalysisError('InterestNameField.parse_from: loop shape not recognised')
    # append reachable exactly via the not-digest edge; and unavoidable there
    lab_digest = isinstance(dt[0].ast.ops[0], ast.Eq)
    if ap[0].id in npf.cfg.reachable(removed_edges={(dt[0].id, not lab_digest)}):
        R.fail('C02.MPT.1', inst, npf.qual, ap[0].ast, 'the parameters digest component is included in the signed portion', site(npf, ap[0].ast))
    elif lp[0].id in reach_from_succ(npf.cfg, dt[0], not lab_digest, removed_nodes={ap[0].id}, follow_exc=False) or \
            any(isinstance(x, ast.Break) for x in ast.walk(lp[0].ast)):
        R.fail('C02.MPT.1', inst, npf.qual, lp[0].ast, 'some name component other than the digest is left out of the signed portion', site(npf, lp[0].ast))
    else:
        R.ok('C02.MPT.1', inst, site(npf, ap[0].ast))
    ne = ctx(R, TM + '.InterestNameField.encode_into')
    apps = [(n, c) for (n, c) in calls_in_ctx(ne, attr='append') if ast.unparse(c.func.value) == 'sig_cover_part']
    inst = ne.qual + ' :: covered ranges around the digest component'
    exp = sorted(ast.unparse(c.args[0]) for (n, c) in apps)
    if exp == ['wire[cover_start:offset]', 'wire[cover_start:offset]']:
        cs0 = [v for n in ne.cfg.nodes for (nm, v) in ne.cfg.defs_of(n) if nm == 'cover_start' and isinstance(v, ast.AST)]
        if any(ast.unparse(v) == 'offset' for v in cs0):
            R.ok('C02.MPT.1', inst, site(ne, apps[0][1]))
        else:
            R.fail('C02.MPT.1', inst, ne.qual, apps[0][1], 'the signed portion of the name does not start at the first component', site(ne, apps[0][1]))
    else:
        R.fail('C02.MPT.1', inst, ne.qual, apps[0][1] if apps else 'def encode_into', f'covered name ranges are {exp}', site(ne, ne.f.node))
    # ------------------------------------------------------------------ ORD.2 Interest: sign first, then digest over the shrunk range
    R.ob('C02.ORD.2', 'InterestPacketValue.encode: the signature is computed before the parameters digest; the digest range ends at the shrunk end; '
                      'the digest is written into the name\'s digest buffer')
    en = ctx(R, F3 + '.InterestPacketValue.encode')
    cs = [n for (n, c) in calls_in_ctx(en, attr='calculate_signature')]
    dg = [n for (n, c) in calls_in_ctx(en, attr='digest')]
    inst = en.qual
    probs = []
    if len(cs) != 1 or len(dg) != 1:
        raise AnalysisError('InterestPacketValue.encode: signature / digest steps not found')
    if not en.cfg.dominates(cs[0], dg[0]):
        probs.append(('the parameters digest is computed before the signature value is filled in', dg[0].ast))
    # the shrink amount is produced by calculate_signature: it may only be read afterwards (a read hoisted above it sees the reserved size)
    shr = [n for (n, c) in calls_in_ctx(en, attr='get_arg') if ast.unparse(c.func.value).endswith('_shrink_len')]
    for n_ in shr:
        if not en.cfg.dominates(cs[0], n_):
            probs.append(('the signature shrink amount is read before the signature has been computed (it is still 0 then): the digest range keeps the '
                          'unused reserved bytes of a shorter signature', n_.ast))
    # everything below is compared on fully inlined text (temporaries do not matter)
    upd = [c for (n, c) in calls_in_ctx(en, attr='update')]
    loops = [n for n in en.cfg.nodes if n.kind == 'for' and any(c in [x for x in ast.walk(n.ast)] for c in upd)]
    def listed(e_):
        # the list of blocks may be a local bound once to a list display
        if isinstance(e_, ast.Name):
            ds = [v for n in en.cfg.nodes for (nm, v) in en.cfg.defs_of(n) if nm == e_.id]
            if len(ds) == 1 and isinstance(ds[0], ast.List):
                return full_text(en, ds[0])
        return full_text(en, e_)
    hashed = listed(loops[0].ast.iter) if loops else (listed(upd[0].args[0]) if upd else '?')
    if not upd:
        # one-shot form `sha256(block).digest()`: the constructor argument is the (single) hashed block
        ctor = [c for (n, c) in calls_in_ctx(en) if ast.unparse(c.func).rsplit('.', 1)[-1] == 'sha256' and len(c.args) == 1 and not c.keywords]
        if len(ctor) == 1:
            hashed = '[' + full_text(en, ctor[0].args[0]) + ']'
    enc = "super().encode(wire, offset, markers)"
    want = (f'[memoryview({enc})[self._digest_cover_start.get_arg(markers):self._digest_cover_end.get_arg(markers) - self._shrink_len.get_arg(markers)]]')
    if 'self._digest_cover_end.get_arg(markers) - self._shrink_len.get_arg(markers)' not in hashed:
        probs.append(('the digest range does not end at the end of the (shrunk) signature value', en.f.node))
    elif hashed != want:
        probs.append((f'the digest is not computed over wire[digest start:digest end] of the encoded packet (it hashes {hashed})', en.f.node))
    st = [n for n in en.cfg.nodes if n.kind == 'stmt' and isinstance(n.ast, ast.Assign) and isinstance(n.ast.targets[0], ast.Subscript)
          and full_text(en, n.ast.targets[0].value) == 'self._digest_buf.get_arg(markers)']
    if len(st) != 1 or 'digest()' not in full_text(en, st[0].ast.value):
        probs.append(('the digest is not written into the digest component of the name', en.f.node))
    nd = [t for t in en.cfg.nodes if t.kind == 'test' and '_need_digest' in full_text(en, t.ast)]
    if len(nd) != 1 or dg[0].id in en.cfg.reachable(removed_edges={(nd[0].id, True)}):
        probs.append(('the digest is computed although the Interest has no parameters', dg[0].ast))
    if probs:
        for (what, construct) in probs:
            R.fail('C02.ORD.2', inst, en.qual, construct if not isinstance(construct, ast.FunctionDef) else 'def encode', what, site(en, construct))
    else:
        R.ok('C02.ORD.2', inst, site(en, cs[0].ast))
    for q in (F3 + '.InterestPacketValue', F3 + '.DataPacketValue'):
        cx = ctx(R, q + '.encode')
        c = calls_in_ctx(cx, attr='calculate_signature')
        inst = f'{q}.encode :: signature computed after the fields are written'
        sup = [n for (n, c2) in calls_in_ctx(cx, attr='encode')]
        if len(c) == 1 and sup and cx.cfg.dominates(sup[0], c[0][0]) and ast.unparse(c[0][1].func.value) == q.rsplit('.', 1)[1] + '.signature_value':
            R.ok('C02.ORD.2', inst, site(cx, c[0][1]))
        else:
            R.fail('C02.ORD.2', inst, cx.qual, 'def encode', 'calculate_signature is not called on this model\'s signature field after encoding', site(cx, cx.f.node))
        pq = ctx(R, q + '.parse')
        inst = f'{q}.parse :: fresh covered-part list per parse'
        sets = [cc for (n, cc) in calls_in_ctx(pq, attr='set_arg') if ast.unparse(cc.func.value) == 'cls._sig_cover_part' and ast.unparse(cc.args[1]) == '[]']
        if sets:
            R.ok('C02.ORD.2', inst, site(pq, sets[0]))
        else:
            R.fail('C02.ORD.2', inst, pq.qual, 'def parse', 'the covered-part list is not reset for each parse', site(pq, pq.f.node))
    # ------------------------------------------------------------------ LOP.1 signers / verifiers consume the whole list
    R.ob('C02.LOP.1', 'every signer and verifier consumes all blocks of the covered part, in order')
    consumers = [q for q in P.funcs if q.startswith('ndn.security.signer.') and q.endswith('.write_signature_value')]
    consumers += [KV + '.verify_ecdsa', KV + '.verify_rsa', KV + '.verify_hmac', KV + '.verify_ed25519', DV + '.sha256_digest_checker', DV + '.params_sha256_checker']
    n_ok = 0
    for q in sorted(consumers):
        cx = ctx(R, q)
        if q.endswith('null_signer.NullSigner.write_signature_value'):
            continue        # exempt by definition: writes an empty value
        inst = f'{q} :: covered part'
        loops = [n for n in cx.cfg.nodes if n.kind == 'for']
        joins = [c for (n, c) in calls_in_ctx(cx, attr='join')]
        if q.startswith('ndn.security.signer.'):
            listexpr = cx.f.node.args.args[2].arg
        elif 'digest_validator' in q:
            listexpr = 'covered_part'
        else:
            listexpr = 'sig_ptrs.signature_covered_part'
        good = False
        if len(loops) == 1 and (ast.unparse(loops[0].ast.iter) == listexpr or full_text(cx, loops[0].ast.iter) == listexpr) and not any(isinstance(x, (ast.Break, ast.Continue, ast.If)) for x in ast.walk(loops[0].ast)):
            ups = [c for c in ast.walk(loops[0].ast) if isinstance(c, ast.Call) and callee_attr(c) == 'update' and ast.unparse(c.args[0]) == ast.unparse(loops[0].ast.target)]
            good = len(ups) == 1
        elif not loops and len(joins) == 1 and (ast.unparse(joins[0].args[0]) == listexpr or full_text(cx, joins[0].args[0]) == listexpr):
            good = True
        if not good and not loops and not joins:
            # the feeding loop moved into a new helper that takes the list (and is used in expression position, so it was not expanded)
            from .common import new_callees
            from ..inline import _resolve
            for c_ in [x for n_ in cx.cfg.nodes for x in n_.calls()]:
                pos = [i for i, a_ in enumerate(c_.args) if ast.unparse(a_) == listexpr or full_text(cx, a_) == listexpr]
                try:
                    tq = _resolve(P, cx.f, c_)
                except Exception:
                    tq = None
                if not pos or not isinstance(tq, str) or tq not in {h.qual for h in new_callees(R, cx)}:
                    continue
                hx = ctx(R, tq)
                params = [a_.arg for a_ in hx.f.node.args.args]
                if pos[0] >= len(params):
                    continue
                hl = [n_ for n_ in hx.cfg.nodes if n_.kind == 'for']
                if len(hl) == 1 and ast.unparse(hl[0].ast.iter) == params[pos[0]] and not any(isinstance(x, (ast.Break, ast.Continue, ast.If)) for x in ast.walk(hl[0].ast)):
                    ups = [u for u in ast.walk(hl[0].ast) if isinstance(u, ast.Call) and callee_attr(u) == 'update' and ast.unparse(u.args[0]) == ast.unparse(hl[0].ast.target)]
                    good = len(ups) == 1
        if good:
            n_ok += 1
            R.ok('C02.LOP.1', inst, site(cx, cx.f.node))
        else:
            R.fail('C02.LOP.1', inst, q, loops[0].ast if loops else 'def ' + cx.f.node.name, f'not every block of `{listexpr}` is fed to the hash / signature, in order', site(cx, cx.f.node))
    R.need(n_ok + len(R.violations) >= 11, f'only {n_ok} covered-part consumers recognised')
    # ------------------------------------------------------------------ MPT.3 a known-key validator accepts only what the verifier accepted
    R.ob('C02.MPT.3', 'known-key validators: every accepting answer is the answer of the signature verification of *this* packet (no answer '
                      'remembered from, or decided by, anything that leaves out the signature value)')
    vq = KV + '.KnownChecker.from_key.<validator>'
    targets = [(vq, ('_verify',))] + [(q, ('verify_ecdsa', 'verify_rsa', 'verify_hmac', 'verify_ed25519'))
                                      for q in sorted(P.funcs) if q.startswith(KV + '.') and q.endswith('Checker._verify') and not q.startswith(KV + '.KnownChecker.')]
    for (q, verifiers) in targets:
        if q not in P.funcs:
            raise AnalysisError(f'anchor vanished: {q}')
        cx = ctx(R, q)
        inst = f'{q} :: accepts only through {"/".join(verifiers)}'
        bad = []
        for r in returns(cx):
            v = r.ast.value
            exprs = [v]
            if isinstance(v, ast.Name):
                exprs = [s_.expr if s_.kind == 'expr' else None for s_ in cx.sources(r, v)]
            for e in exprs:
                if isinstance(e, ast.Constant) and not e.value:
                    continue
                if isinstance(e, ast.Call) and (callee_attr(e) or getattr(e.func, 'id', None)) in verifiers:
                    continue
                # `<restriction> and verify(..)`: truthy only if the verifier's answer is
                if isinstance(e, ast.BoolOp) and isinstance(e.op, ast.And) and any(
                        isinstance(v_, ast.Call) and (callee_attr(v_) or getattr(v_.func, 'id', None)) in verifiers for v_ in e.values):
                    continue
                bad.append((r, e))
        if bad:
            r, e = bad[0]
            R.fail('C02.MPT.3', inst, q, r.ast, f'`{norm(r.ast)}` can answer {"`" + ast.unparse(e) + "`" if e is not None else "a value"} that is not the result of '
                   f'{"/".join(verifiers)}(...) for the packet at hand: a packet whose signed portion was seen before (or that merely passes the checks made '
                   'so far) is accepted whatever its signature value is', site(cx, r.ast))
        else:
            R.ok('C02.MPT.3', inst, site(cx, cx.f.node))
    R.minimum('C02.MPT.3', 5)
    # ------------------------------------------------------------------ MPT.2 digest checkers
    R.ob('C02.MPT.2', 'digest checkers: truthy only through digest == value; empty covered part or missing value is falsy')
    import re as _re

    def _U(e):
        # names as written in the source: the suffix that marks the locals of an expanded helper (`ret__h1`) is dropped, so that the core of a
        # checker moved into a shared helper and expanded back reads like the original
        return _re.sub(r'__h\d+\b', '', ast.unparse(e))
    for q, typed in ((DV + '.sha256_digest_checker', True), (DV + '.params_sha256_checker', False)):
        cx = ctx(R, q)
        inst = q
        probs = []
        cmpn = [n for n in cx.cfg.nodes if n.kind == 'stmt' and isinstance(n.ast, ast.Assign) and _U(n.ast.targets[0]) == 'ret'
                and _U(n.ast.value) in ('sha256_algo.digest() == sig_value', 'sig_value == sha256_algo.digest()')]
        falses = [n for n in cx.cfg.nodes if n.kind == 'stmt' and isinstance(n.ast, ast.Assign) and _U(n.ast.targets[0]) == 'ret'
                  and isinstance(n.ast.value, ast.Constant) and n.ast.value.value is False]
        other = [n for n in cx.cfg.nodes if n.kind == 'stmt' and isinstance(n.ast, ast.Assign) and _U(n.ast.targets[0]) == 'ret' and n not in cmpn + falses]
        if len(cmpn) != 1 or other:
            probs.append(('the verdict is not `computed digest == carried digest`', (other or cmpn or [cx.cfg.entry])[0].ast or cx.f.node))
        empt = [t for t in cx.cfg.nodes if t.kind == 'test' and _U(t.ast) in ('covered_part', 'sig_value')]
        if len(empt) != 2 or not falses or (cmpn and cmpn[0].id in cx.cfg.reachable(removed_edges={(empt[0].id, True)})) or \
                (cmpn and cmpn[0].id in cx.cfg.reachable(removed_edges={(empt[1].id, True)})):
            probs.append(('an empty covered part or a missing digest value is not refused', cx.f.node))
        for r in returns(cx):
            v = _U(r.ast.value)
            if v == 'ret':
                continue
            if typed and v == 'True':
                # valuation "SignatureInfo present and of type DigestSha256": prune the edges the tests on it cannot take, in either polarity
                tt = [t for t in cx.cfg.nodes if t.kind == 'test' and 'DIGEST_SHA256' in full_text(cx, t.ast)]
                pruned = set()
                for t in cx.cfg.nodes:
                    if t.kind != 'test':
                        continue
                    ft = full_text(cx, t.ast)
                    if 'DIGEST_SHA256' in ft and isinstance(t.ast, ast.Compare) and len(t.ast.ops) == 1:
                        pruned.add((t.id, not isinstance(t.ast.ops[0], ast.Eq)))        # `== DIGEST` is true, `!= DIGEST` is false
                    elif ft in ('sig.signature_info', 'sig_info') or ft.endswith('.signature_info'):
                        pruned.add((t.id, False))                                       # SignatureInfo is present
                    elif ft.endswith('.signature_info is None'):
                        pruned.add((t.id, True))
                    elif ft.endswith('.signature_info is not None'):
                        pruned.add((t.id, False))
                if not tt or r.id in cx.cfg.reachable(removed_edges=pruned):
                    probs.append(('True is returned for a digest-typed packet without comparing digests', r.ast))
                continue
            probs.append((f'returns {v}', r.ast))
        srcs = {nm: _U(v) for n in cx.cfg.nodes for (nm, v) in cx.cfg.defs_of(n) if isinstance(v, ast.AST) and nm in ('covered_part', 'sig_value')}
        want = {'covered_part': 'sig.signature_covered_part', 'sig_value': 'sig.signature_value_buf'} if typed else \
            {'covered_part': 'sig.digest_covered_part', 'sig_value': 'sig.digest_value_buf'}
        if srcs != want:
            probs.append((f'checks {srcs} instead of {want}', cx.f.node))
        if probs:
            for (what, construct) in probs:
                R.fail('C02.MPT.2', inst, q, construct if not isinstance(construct, ast.AsyncFunctionDef) else 'def ' + cx.f.node.name, what, site(cx, construct))
        else:
            R.ok('C02.MPT.2', inst, site(cx, cmpn[0].ast))
    # ------------------------------------------------------------------ SIB.1 signer <-> verifier tables
    R.ob('C02.SIB.1', 'each signer and its verifier agree on signature type constant, scheme parameters and hash')
    pairs = [('sha256_ecdsa_signer.Sha256WithEcdsaSigner', 'verify_ecdsa', 'EccChecker', 'SHA256_WITH_ECDSA'),
             ('sha256_rsa_signer.Sha256WithRsaSigner', 'verify_rsa', 'RsaChecker', 'SHA256_WITH_RSA'),
             ('sha256_hmac_signer.HmacSha256Signer', 'verify_hmac', 'HmacChecker', 'HMAC_WITH_SHA256'),
             ('ed25519_signer.Ed25519Signer', 'verify_ed25519', 'Ed25519Checker', 'ED25519')]
    EXT_SIG = {'DSS.new': ('key', 'mode', 'encoding', 'randfunc'), 'pkcs1_15.new': ('rsa_key',), 'HMAC.new': ('key', 'msg', 'digestmod'),
               'eddsa.new': ('key', 'mode', 'context'), 'SHA256.new': ('data',)}     # pycryptodome signatures
    for (sg, vf, chk, st) in pairs:
        sq = 'ndn.security.signer.' + sg
        wi = ctx(R, sq + '.write_signature_info')
        wv = ctx(R, sq + '.write_signature_value')
        vx = ctx(R, f'{KV}.{vf}')
        cx = ctx(R, f'{KV}.{chk}._verify')
        inst = f'{sg.split(".")[1]} <-> {vf}'
        probs = []
        stw = [ast.unparse(n.ast.value) for n in wi.cfg.nodes if n.kind == 'stmt' and isinstance(n.ast, ast.Assign) and ast.unparse(n.ast.targets[0]) == 'signature_info.signature_type']
        if stw != [f'SignatureType.{st}']:
            probs.append(f'signer writes {stw}')
        tt = [t for t in cx.cfg.nodes if t.kind == 'test' and isinstance(t.ast, ast.Compare) and 'signature_type' in ast.unparse(t.ast.left)]
        if len(tt) != 1 or ast.unparse(tt[0].ast.comparators[0]) != f'SignatureType.{st}' or not isinstance(tt[0].ast.ops[0], ast.NotEq):
            probs.append(f'checker tests {ast.unparse(tt[0].ast) if tt else None}')
        # scheme constructor literals

        def scheme(cxx):
            out = []
            for (n, c) in calls_in_ctx(cxx):
                fn = ast.unparse(c.func)
                if fn in EXT_SIG:
                    # scheme parameters by name, however they are passed (the key / message arguments are data, not parameters)
                    names = EXT_SIG[fn]
                    bound = {names[i]: a for i, a in enumerate(c.args) if i < len(names)}
                    bound.update({k.arg: k.value for k in c.keywords if k.arg})
                    lits = sorted(f'{k}={ast.unparse(v)}' for k, v in bound.items() if k not in ('key', 'rsa_key', 'msg', 'data'))
                    out.append((fn, tuple(lits)))
            return sorted(out)
        if scheme(wv) != scheme(vx):
            probs.append(f'signer uses {scheme(wv)} but verifier uses {scheme(vx)}')
        vcall = [c for (n, c) in calls_in_ctx(cx) if ast.unparse(c.func) == vf]
        if len(vcall) != 1 or not all(isinstance(r.ast.value, ast.Call) and r.ast.value is vcall[0] or const_bool(r.ast.value) is False for r in returns(cx)):
            probs.append('checker does not return the verifier result')
        if probs:
            R.fail('C02.SIB.1', inst, f'{KV}.{vf}', 'def ' + vf, '; '.join(probs), site(vx, vx.f.node))
        else:
            R.ok('C02.SIB.1', inst, site(vx, vx.f.node), str(scheme(vx)))
    for vf in ('verify_ecdsa', 'verify_rsa', 'verify_hmac', 'verify_ed25519'):
        vx = ctx(R, f'{KV}.{vf}')
        inst = f'{vf} :: True only when verify() did not raise'
        trues = [r for r in returns(vx) if const_bool(r.ast.value) is True]
        ver = [n for (n, c) in calls_in_ctx(vx, attr='verify')]
        hs = [h for h in vx.cfg.nodes if h.kind == 'handler']
        okv = len(ver) == 1 and trues and all(vx.cfg.dominates(ver[0], r) for r in trues) and hs and \
            all(const_bool(r.ast.value) is False for r in returns(vx) if r.in_handlers) and \
            'sig_ptrs.signature_value_buf' in ast.unparse(ver[0].ast)
        if okv:
            R.ok('C02.SIB.1', inst, site(vx, ver[0].ast))
        else:
            R.fail('C02.SIB.1', inst, vx.qual, 'def ' + vf, 'the verifier can answer True without a successful verify() of the carried signature value', site(vx, vx.f.node))
    # the check only protects anything if the front-ends run it for every Interest that carries parameters (even empty ones) or a signature
    R.ob('C02.SHR.1', 'shared with C05: both front-ends run the parameters-digest check for every Interest with ApplicationParameters (present, '
                      'not "non-empty") or a signature before the handler can be reached')
    shared_obligations(R, 'C02.SHR.1', 'C05', {'C05.MPT.2': lambda i: '_on_interest ::' in i and 'validation-required condition' in i,
                                               'C05.MPT.3': lambda i: '_on_interest ::' in i and ('validation-required condition' in i or 'parameters-digest gate' in i)})
    R.assumptions += ['that tampered packets are rejected is a property of the cryptographic primitives (Cryptodome), not decided here']
