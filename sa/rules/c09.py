"""C09 — name representations (URI, component list, wire) are mutually consistent (structural part). DESIGN §4 C09."""
import ast
import string

from .common import memo_rule, ctx, returns, calls_in_ctx, reach_from_succ, site, srcs_text, orient, inline_ast
from ..flow import callee_attr
from ..linexpr import lin, show, NotLinear
from ..loader import AnalysisError, norm, NOVALUE
from ..tlvtables import varnum_tables, compare_varnum

NM = 'ndn.encoding.name.Name'
CM = 'ndn.encoding.name.Component'
TM = 'ndn.encoding.tlv_model'
ELEM = 'Component.from_str(Component.escape_str(comp))'


def fold_charset(P):
    r = P.lookup(CM, 'CHARSET')
    if not (r and r[0] == 'const'):
        raise AnalysisError('Component.CHARSET not found')

    def ev(e):
        if isinstance(e, ast.BinOp) and isinstance(e.op, ast.BitOr):
            return ev(e.left) | ev(e.right)
        if isinstance(e, ast.Call) and isinstance(e.func, ast.Name) and e.func.id == 'set' and len(e.args) == 1:
            a = e.args[0]
            if isinstance(a, ast.Attribute) and isinstance(a.value, ast.Name) and a.value.id == 'string' and hasattr(string, a.attr):
                return set(getattr(string, a.attr))
            if isinstance(a, ast.Constant) and isinstance(a.value, str):
                return set(a.value)
        if isinstance(e, ast.Set):
            return {x.value for x in e.elts if isinstance(x, ast.Constant)}
        v = P.const_value(CM, e)
        if v is not NOVALUE and isinstance(v, (set, frozenset)):
            return set(v)
        raise AnalysisError('cannot fold CHARSET: ' + ast.unparse(e)[:60])
    return ev(r[3])


def is_elem_conv(x):
    """`Component.from_str(Component.escape_str(<name>))` whatever the loop variable is called"""
    return isinstance(x, ast.Call) and ast.unparse(x.func) in ('Component.from_str', 'from_str') and len(x.args) == 1 and isinstance(x.args[0], ast.Call) \
        and ast.unparse(x.args[0].func) in ('Component.escape_str', 'escape_str') and len(x.args[0].args) == 1 and isinstance(x.args[0].args[0], ast.Name)


def normaliser_table(cx, var):
    """which conversion each input form gets in a NonStrictName normaliser: dict form -> description"""
    t = {}
    src = cx.f.node
    for n in cx.cfg.nodes:
        for c in n.calls():
            txt = ast.unparse(c)
            if txt.startswith('Name.from_str(') or txt.startswith('from_str('):
                t['str'] = 'from_str'
            if txt in ('Name.decode(name)[0]', 'decode(name)[0]') or txt.startswith(('Name.decode(', 'decode(')):
                t['binary'] = 'decode'
        for x in n.walk():
            if isinstance(x, ast.Call) and is_elem_conv(x):
                t['elem_str'] = 'from_str(escape_str)'
    raises = [n for n in cx.cfg.nodes if n.kind == 'raise' and n.ast.exc is not None and 'TypeError' in ast.unparse(n.ast.exc)]
    t['n_typeerror'] = len(raises)
    tests = [ast.unparse(x.ast) for x in cx.cfg.nodes if x.kind == 'test']
    t['tests'] = tests
    return t


def run(R):
    memo_rule(R, 'C09.MEM.1', ('ndn.encoding.name.Name', 'ndn.encoding.name.Component'), 'names are lists of bytearray / memoryview components that callers edit in '
              'place; a shared result makes every later conversion of the same text return the edited name')
    P = R.P
    # ------------------------------------------------------------------ TBL.1
    R.ob('C09.TBL.1', 'type/length numbers are written in their shortest form (byte order of encoded components = canonical order)')
    tabs = varnum_tables(P, ('get_tl_num_size', 'write_tl_num'))
    for (what, a, b, okay, detail) in compare_varnum(tabs, only=('get_tl_num_size', 'write_tl_num')):
        inst = f'{a} :: {what}'
        if okay:
            R.ok('C09.TBL.1', inst, tabs[a]['site'], detail)
        else:
            R.fail('C09.TBL.1', inst, 'ndn.encoding.tlv_var.' + a, what, f'{a}: {what}: {detail}', tabs[a]['site'])
    fb = ctx(R, CM + '.from_bytes')
    try:
        I = lambda e: inline_ast(fb, e)      # single-definition locals (sizes, `length = len(val)`) read as their definitions
        bufs = [n.ast.value for n in fb.cfg.nodes if n.kind == 'stmt' and isinstance(n.ast, ast.Assign) and isinstance(n.ast.value, ast.Call)
                and ast.unparse(n.ast.value.func) == 'bytearray']
        want = {'get_tl_num_size(typ)': 1, 'get_tl_num_size(len(val))': 1, 'len(val)': 1}
        ws = [c for (n, c) in sorted(calls_in_ctx(fb, pred=lambda c: ast.unparse(c.func) == 'write_tl_num'), key=lambda x: x[0].id)]
        def off(c):      # the offset argument of write_tl_num (default 0)
            return c.args[2] if len(c.args) > 2 else next((k.value for k in c.keywords if k.arg == 'offset'), ast.Constant(0))
        ok = len(bufs) == 1 and lin(I(bufs[0].args[0])) == want and len(ws) == 2 and ast.unparse(I(ws[0].args[0])) == 'typ' and lin(I(off(ws[0]))) == {} \
            and ast.unparse(I(ws[1].args[0])) == 'len(val)' and lin(I(off(ws[1]))) == {'get_tl_num_size(typ)': 1}
        st = [n for n in fb.cfg.nodes if n.kind == 'stmt' and isinstance(n.ast, ast.Assign) and isinstance(n.ast.targets[0], ast.Subscript)]
        ok = ok and len(st) == 1 and lin(I(st[0].ast.targets[0].slice.lower)) == {'get_tl_num_size(typ)': 1, 'get_tl_num_size(len(val))': 1} \
            and ast.unparse(st[0].ast.value) == 'val'
    except NotLinear:
        ok = False
    inst = fb.qual + ' :: component = TL(typ) TL(len) value'
    if ok:
        R.ok('C09.TBL.1', inst, site(fb, fb.f.node))
    else:
        R.fail('C09.TBL.1', inst, fb.qual, 'def from_bytes', 'a component is not assembled as shortest Type, shortest Length, value', site(fb, fb.f.node))
    rng = [t for t in fb.cfg.nodes if t.kind == 'test' and ast.unparse(t.ast) in ('typ <= 0', 'typ > MAX_COMPONENT_TYPE_VALUE')]
    inst = fb.qual + ' :: type range 1..65535 enforced'
    if len(rng) == 2 and P.const_value(CM, ast.parse('MAX_COMPONENT_TYPE_VALUE', mode='eval').body) == 65535:
        R.ok('C09.TBL.1', inst, site(fb, rng[0].ast))
    else:
        R.fail('C09.TBL.1', inst, fb.qual, 'def from_bytes', 'component types outside 1..65535 are not refused', site(fb, fb.f.node))

    # ------------------------------------------------------------------ SIB.1 the three normalisers
    R.ob('C09.SIB.1', 'the three NonStrictName normalisers (Name.normalize, NameField, InterestNameField) treat every input form the same way')
    norms = {'Name.normalize': ctx(R, NM + '.normalize'), 'NameField.encoded_length': ctx(R, TM + '.NameField.encoded_length'),
             'InterestNameField.encoded_length': ctx(R, TM + '.InterestNameField.encoded_length')}
    tabs_n = {k: normaliser_table(v, 'name') for k, v in norms.items()}
    for k, t in tabs_n.items():
        cx = norms[k]
        inst = f'{k} :: input forms'
        probs = []
        if t.get('str') != 'from_str':
            probs.append('a URI string is not parsed with Name.from_str')
        if t.get('elem_str') != 'from_str(escape_str)':
            probs.append('text components of a list are not converted with Component.from_str(Component.escape_str(c))')
        if k != 'NameField.encoded_length' and t.get('binary') != 'decode':
            probs.append('an encoded name is not decoded into components')
        if t['n_typeerror'] < 2:
            probs.append(f'only {t["n_typeerror"]} TypeError refusals (name of wrong type / component of wrong type)')
        if not any('isinstance' in x and 'str' in x for x in t['tests']) or not any('is_binary_str' in x for x in t['tests']):
            probs.append('input form is not dispatched on str / binary / iterable')
        if probs:
            R.fail('C09.SIB.1', inst, cx.qual, 'def ' + cx.f.node.name, '; '.join(probs), site(cx, cx.f.node))
        else:
            R.ok('C09.SIB.1', inst, site(cx, cx.f.node))
    # Name.normalize: element conversion only under isinstance(comp, str), binary passes through, result is a new list
    nz = norms['Name.normalize']
    # the statement that converts a text component: only under isinstance(<that component>, str); the result is a list of its own
    st = [n for n in nz.cfg.nodes if n.kind == 'stmt' and isinstance(n.ast, ast.Assign) and is_elem_conv(n.ast.value)]
    cvar = st[0].ast.value.args[0].args[0].id if st else None
    ts = [t for t in nz.cfg.nodes if t.kind == 'test' and ast.unparse(t.ast) == f'isinstance({cvar}, str)']
    inst = 'Name.normalize :: per-component conversion'
    pn = nz.f.node.args.args[0].arg
    fresh = any(isinstance(v, ast.AST) and (ast.unparse(v) == f'list({pn})' or (isinstance(v, ast.List) and not v.elts))
                for r_ in returns(nz) if isinstance(r_.ast.value, ast.Name) for (d_, v) in nz.cfg.defs_reaching(r_, r_.ast.value.id))
    if len(st) == 1 and len(ts) == 1 and st[0].id not in nz.cfg.reachable(removed_edges={(ts[0].id, True)}) and fresh:
        R.ok('C09.SIB.1', inst, site(nz, st[0].ast))
    else:
        R.fail('C09.SIB.1', inst, nz.qual, st[0].ast if st else 'def normalize', 'components are not converted exactly when they are text (or the caller\'s list is modified)',
               site(nz, nz.f.node))
    # ------------------------------------------------------------------ SIB.2 to_str vs to_canonical_uri
    R.ob('C09.SIB.2', 'Component.to_str and to_canonical_uri share the byte->text rule; Name.to_str / to_canonical_uri differ only in the component function')
    ts_, tc_ = ctx(R, CM + '.to_str'), ctx(R, CM + '.to_canonical_uri')
    d1 = P.funcs.get(CM + '.to_str.<decode>')
    d2 = P.funcs.get(CM + '.to_canonical_uri.<decode>')
    inst = 'Component.to_str / to_canonical_uri :: byte escaping rule'
    if d1 and d2 and ast.dump(d1.node) == ast.dump(d2.node):
        R.ok('C09.SIB.2', inst, d1.loc())
    elif d1 is None and d2 is None:
        R.ok('C09.SIB.2', inst, ts_.f.loc(), 'shared helper')
    else:
        R.fail('C09.SIB.2', inst, CM + '.to_canonical_uri', 'def decode', 'the two URI writers escape bytes differently', tc_.f.loc())
    for cx in (ts_, tc_):
        inst = f'{cx.qual} :: malformed component refused, typed prefix'
        par = cx.f.node.args.args[0].arg

        def is_len_check(t):
            a = t.ast
            if not (isinstance(a, ast.Compare) and len(a.ops) == 1 and isinstance(a.ops[0], ast.NotEq)):
                return False
            try:
                d = lin(ast.BinOp(left=a.left, op=ast.Sub(), right=a.comparators[0]))
            except NotLinear:
                return False
            k = d.get(f'len({par})', 0)
            rest = {t_: c for t_, c in d.items() if t_ != f'len({par})'}
            return k in (1, -1) and len(rest) == 2 and all(c == -k for c in rest.values()) and 1 not in rest
        chk = [t for t in cx.cfg.nodes if t.kind == 'test' and is_len_check(t)]
        gen = [t for t in cx.cfg.nodes if t.kind == 'test' and isinstance(t.ast, ast.Compare) and len(t.ast.ops) == 1 and isinstance(t.ast.ops[0], ast.NotEq)
               and 'TYPE_GENERIC' in {ast.unparse(t.ast.left).rsplit('.', 1)[-1], ast.unparse(t.ast.comparators[0]).rsplit('.', 1)[-1]}]
        if not gen:
            # the prefix chosen by a conditional expression: `('' if typ == TYPE_GENERIC else f'{typ}=') + ..`
            gen = [x for x in ast.walk(cx.f.node) if isinstance(x, ast.IfExp) and isinstance(x.test, ast.Compare) and len(x.test.ops) == 1
                   and isinstance(x.test.ops[0], (ast.Eq, ast.NotEq))
                   and 'TYPE_GENERIC' in {ast.unparse(x.test.left).rsplit('.', 1)[-1], ast.unparse(x.test.comparators[0]).rsplit('.', 1)[-1]}]
        if chk and gen:
            R.ok('C09.SIB.2', inst, site(cx, chk[0].ast))
        else:
            R.fail('C09.SIB.2', inst, cx.qual, 'def ' + cx.f.node.name, 'length check / non-generic type prefix missing', site(cx, cx.f.node))
    n1, n2 = P.func(NM + '.to_str'), P.func(NM + '.to_canonical_uri')
    a = ast.unparse(n1.node).replace('Component.to_str', 'F').replace('def to_str', 'def f')
    b = ast.unparse(n2.node).replace('Component.to_canonical_uri', 'F').replace('def to_canonical_uri', 'def f')

    def strip_doc(fn):
        body = fn.body[1:] if fn.body and isinstance(fn.body[0], ast.Expr) and isinstance(fn.body[0].value, ast.Constant) else fn.body
        return '\n'.join(ast.unparse(s) for s in body)
    a = strip_doc(n1.node).replace('Component.to_str', 'F')
    b = strip_doc(n2.node).replace('Component.to_canonical_uri', 'F')
    inst = 'Name.to_str / to_canonical_uri :: same slash handling'
    R.touch(n1, n2)
    import re as _re
    from ..alpha import alpha_form
    same = a == b
    if not same:
        # same up to the names of locals
        fa_ = ast.parse(ast.unparse(n1.node).replace('Component.to_str', 'F'))
        fb_ = ast.parse(ast.unparse(n2.node).replace('Component.to_canonical_uri', 'F'))
        same = alpha_form(fa_.body[0])[0] == alpha_form(fb_.body[0])[0]
    if same and "'/' + '/'.join(" in a and _re.search(r"\w+\[-1\] == b'\\x08\\x00'", a):
        R.ok('C09.SIB.2', inst, n1.loc())
    else:
        R.fail('C09.SIB.2', inst, NM + '.to_canonical_uri', 'def to_canonical_uri', 'the two name writers differ beyond the component function (leading slash, separator, trailing empty component)', n2.loc())
    # Name.from_str slash handling
    fs = ctx(R, NM + '.from_str')
    inst = 'Name.from_str :: leading / trailing slash and empty components'
    src = strip_doc(fs.f.node)
    conv = _re.search(r'Component\.from_str\(Component\.escape_str\(\w+\)\)', src) is not None
    # explored under every valuation of (starts with '/', ends with '/', nothing left after stripping): exactly the slashes present are stripped
    # (one each), and the result is empty exactly when nothing is left and at most one slash was stripped (`/` and `` are the empty name, `//` is not)
    val = fs.f.node.args.args[0].arg
    from .common import explore_sym

    def slash_atom(e, stt):
        st = dict(stt)
        t = ast.unparse(e)
        if t == f"{val}.startswith('/')":
            if st.get('#lead'):
                raise AnalysisError('Name.from_str: a second leading slash is looked at (unrecognised shape, cannot decide C09.SIB.2)')
            return VAL['S']
        if t == f"{val}.endswith('/')":
            if st.get('#trail'):
                raise AnalysisError('Name.from_str: a second trailing slash is looked at (unrecognised shape, cannot decide C09.SIB.2)')
            return VAL['E']
        if t == val:
            return not VAL['V']
        if t in (f"{val} == ''", f'len({val}) == 0'):
            return VAL['V']
        if t in (f"{val} != ''", f'len({val}) != 0', f'len({val}) > 0'):
            return not VAL['V']
        if isinstance(e, ast.Compare) and len(e.ops) == 1 and isinstance(e.left, ast.Name) and e.left.id in st and isinstance(st[e.left.id], int) \
                and isinstance(e.comparators[0], ast.Constant) and isinstance(e.comparators[0].value, int):
            a_, b_ = st[e.left.id], e.comparators[0].value
            return {ast.LtE: a_ <= b_, ast.Lt: a_ < b_, ast.Eq: a_ == b_, ast.NotEq: a_ != b_, ast.Gt: a_ > b_, ast.GtE: a_ >= b_}.get(type(e.ops[0]))
        return None

    def slash_transfer(n, stt):
        st = dict(stt)
        if n.kind == 'stmt' and isinstance(n.ast, ast.Assign) and len(n.ast.targets) == 1 and isinstance(n.ast.targets[0], ast.Name):
            nm, v = n.ast.targets[0].id, n.ast.value
            if nm == val:
                tv = ast.unparse(v)
                if tv == f'{val}[1:]':
                    st['#lead'] = True
                elif tv == f'{val}[:-1]':
                    st['#trail'] = True
                elif tv == f"{val}.strip('/')" or 'strip' in tv:
                    raise AnalysisError('Name.from_str: slashes are stripped in bulk (unrecognised shape, cannot decide C09.SIB.2)')
                else:
                    raise AnalysisError(f'Name.from_str: `{norm(n.ast)}` rewrites the text in an unrecognised way (cannot decide C09.SIB.2)')
            elif isinstance(v, ast.Constant) and isinstance(v.value, int) and not isinstance(v.value, bool):
                st[nm] = v.value
            else:
                st.pop(nm, None)
        elif n.kind == 'stmt' and isinstance(n.ast, ast.AugAssign) and isinstance(n.ast.target, ast.Name) and n.ast.target.id in st \
                and isinstance(n.ast.value, ast.Constant) and isinstance(n.ast.value.value, int) and isinstance(n.ast.op, (ast.Add, ast.Sub)):
            k_ = st[n.ast.target.id]
            st[n.ast.target.id] = k_ + n.ast.value.value if isinstance(n.ast.op, ast.Add) else k_ - n.ast.value.value
        return tuple(sorted(st.items()))

    def undecided(n, stt):
        if any(isinstance(x, ast.Name) and (x.id == val or x.id in dict(stt)) for x in ast.walk(n.ast)):
            raise AnalysisError(f'Name.from_str: unrecognised condition `{norm(n.ast)}` (cannot decide C09.SIB.2)')
    rets = returns(fs)
    probs = []
    for S_ in (True, False):
        for E_ in (True, False):
            for V_ in (True, False):
                VAL = {'S': S_, 'E': E_, 'V': V_}
                reached = explore_sym(fs, slash_atom, slash_transfer, (), on_undecided=undecided)
                outs = set()
                for r in rets:
                    for (nid, stt) in reached:
                        if nid == r.id:
                            st = dict(stt)
                            empty = isinstance(r.ast.value, ast.List) and not r.ast.value.elts
                            outs.add((bool(st.get('#lead')), bool(st.get('#trail')), 'empty' if empty else 'components'))
                want = {(S_, E_, 'empty' if (V_ and S_ + E_ <= 1) else 'components')}
                if V_ and S_ + E_ <= 1:
                    want = {(S_, E_, 'empty')}
                if outs != want:
                    probs.append(f"[text {'starts' if S_ else 'does not start'} with '/', {'ends' if E_ else 'does not end'} with '/', "
                                 f"{'nothing' if V_ else 'something'} left] gives (leading stripped, trailing stripped, result) = {sorted(outs)}, expected {sorted(want)}")
    R.paths_examined += 8
    if not conv and f"{val}.split('/')" in src:
        R.fail('C09.SIB.2', inst, fs.qual, 'def from_str', 'URI components are not converted with Component.from_str(Component.escape_str(c)) like the other normalisers', fs.f.loc())
    elif probs and not any(isinstance(x, ast.Name) and x.id == val and isinstance(x.ctx, ast.Store) for x in ast.walk(fs.f.node)):
        # the text is never re-bound under its own name: the stripping is done on another local, which this walk does not follow
        R.defer('Name.from_str: the slashes are not stripped by re-binding the parameter (restructured; C09.SIB.2 cannot be read)')
    elif probs:
        R.fail('C09.SIB.2', inst, fs.qual, 'def from_str', probs[0] + (f' (+{len(probs) - 1} more)' if len(probs) > 1 else ''), fs.f.loc())
    elif f"{val}.split('/')" in src and conv:
        R.ok('C09.SIB.2', inst, fs.f.loc(), '8 valuations')
    else:
        raise AnalysisError('Name.from_str: the components are not obtained by splitting on `/` (unrecognised shape, cannot decide C09.SIB.2)')
    # ------------------------------------------------------------------ TBL.2 CHARSET
    R.ob('C09.TBL.2', 'URI character classes: raw characters = CHARSET - {%, =}; metacharacters and the separator are never emitted raw; escape_str passes exactly CHARSET')
    cs = fold_charset(P)
    want = set(string.ascii_letters) | set(string.digits) | set('-._~=%')
    inst = 'Component.CHARSET'
    if cs == want:
        R.ok('C09.TBL.2', inst, P.path_of(CM), f'{len(cs)} characters')
    else:
        R.fail('C09.TBL.2', inst, CM, 'CHARSET', f'CHARSET differs from unreserved + {{=, %}}: extra {sorted(cs - want)}, missing {sorted(want - cs)}', P.path_of(CM))
    if '/' in cs:
        R.fail('C09.TBL.2', 'CHARSET :: separator', CM, 'CHARSET', 'the name separator / is in CHARSET (would be emitted raw inside a component)', P.path_of(CM))
    # the octet -> URI text rule of to_str / to_canonical_uri, folded for every octet 0..255 whatever its spelling (nested helper, table, loop):
    # an octet is written raw iff it is in CHARSET and not a metacharacter, otherwise as %XX (upper-case hexadecimal)
    from ..fold import Folder, CannotFold
    raw_ok = cs - {'%', '='}
    def per_item_tables(dx, domain):
        """[(construct, [text for each member of domain])] for every join-over-generator / append-loop of dx that folds for the whole domain"""
        fn = dx.f.node
        closures = {x.name: x for x in fn.body if isinstance(x, ast.FunctionDef)}
        cands = []
        params = {a_.arg for a_ in fn.args.args}
        derived = set(params)
        for _ in range(2):
            for a_ in ast.walk(fn):
                if isinstance(a_, ast.Assign) and len(a_.targets) == 1 and isinstance(a_.targets[0], ast.Name) \
                        and any(isinstance(y, ast.Name) and y.id in derived for y in ast.walk(a_.value)):
                    derived.add(a_.targets[0].id)

        def over_input(it):
            # the loop runs over (a part of) the function's input, and is not nested in another loop
            return any(isinstance(y, ast.Name) and y.id in derived for y in ast.walk(it))
        nested = {id(y) for x in ast.walk(fn) if isinstance(x, (ast.For, ast.While)) for b_ in x.body for y in ast.walk(b_)}
        for x in ast.walk(fn):
            if id(x) in nested and isinstance(x, ast.For):
                continue
            if isinstance(x, ast.For) and not over_input(x.iter):
                continue
            if isinstance(x, ast.Call) and isinstance(x.func, ast.Attribute) and x.func.attr == 'join' and len(x.args) == 1 \
                    and isinstance(x.args[0], (ast.GeneratorExp, ast.ListComp)) and not over_input(x.args[0].generators[0].iter):
                continue
            if isinstance(x, ast.Call) and isinstance(x.func, ast.Attribute) and x.func.attr == 'join' and len(x.args) == 1 \
                    and isinstance(x.args[0], (ast.GeneratorExp, ast.ListComp)) and len(x.args[0].generators) == 1 \
                    and isinstance(x.args[0].generators[0].target, ast.Name) and not x.args[0].generators[0].ifs:
                g = x.args[0]
                cands.append((x, lambda b, g=g: Folder(P, dx.f.mod, closures).ev(g.elt, {g.generators[0].target.id: b})))
            elif isinstance(x, ast.For) and isinstance(x.target, ast.Name) and not x.orelse:
                accs = {c.func.value.id for c in ast.walk(x) if isinstance(c, ast.Call) and isinstance(c.func, ast.Attribute) and c.func.attr in ('append', 'extend')
                        and isinstance(c.func.value, ast.Name)} | {a.target.id for a in ast.walk(x) if isinstance(a, ast.AugAssign) and isinstance(a.target, ast.Name)}
                if len(accs) == 1:
                    acc = next(iter(accs))
                    is_list = any(isinstance(c, ast.Call) and isinstance(c.func, ast.Attribute) and c.func.attr in ('append', 'extend') for c in ast.walk(x))

                    def per(b, x=x, acc=acc, is_list=is_list):
                        env = {x.target.id: b, acc: [] if is_list else ''}
                        Folder(P, dx.f.mod, closures).run_block(x.body, env)
                        return ''.join(env[acc]) if is_list else env[acc]
                    cands.append((x, per))
        tables = []
        for (x, per) in cands:
            try:
                tab = [per(b) for b in domain]
            except (CannotFold, KeyError, IndexError, TypeError, ValueError, AttributeError):
                continue
            if all(isinstance(t, str) for t in tab):
                tables.append((x, tab))
        return tables
    for fq in (CM + '.to_str', CM + '.to_canonical_uri'):
        dx = ctx(R, fq)
        tables = per_item_tables(dx, range(256))
        inst = f'{fq} :: an octet is written raw iff it is in CHARSET and not a metacharacter, else %XX'
        if not tables:
            R.defer(f'{fq}: the octet -> text rule was not found in a foldable form (cannot decide C09.TBL.2 for it)')
            continue
        R.paths_examined += 256 * len(tables)
        bad = []
        for (x, tab) in tables:
            for b in range(256):
                want_t = chr(b) if chr(b) in raw_ok else '%%%02X' % b
                if tab[b] != want_t:
                    bad.append((x, b, tab[b], want_t))
        if bad:
            x, b, got, want_t = bad[0]
            octs = sorted({b_ for (_x, b_, _g, _w) in bad})
            R.fail('C09.TBL.2', inst, fq, x, f'{len(octs)} octet value(s) are not written as the URI rule says, e.g. 0x{b:02X} is written {got!r} instead of {want_t!r} '
                   f'(octets {", ".join("0x%02X" % o for o in octs[:8])}{" ..." if len(octs) > 8 else ""}): the text does not parse back to the same component',
                   site(dx, x))
        else:
            R.ok('C09.TBL.2', inst, dx.f.loc(), f'{len(tables)} rule(s) folded over 256 octets')
    if (CM + '.escape_str.<escape_chr>') not in P.funcs:
        # the nested helper is gone (inlined / replaced by a loop): the character -> text rule of escape_str folded for U+0000..U+02FF
        ex_ = ctx(R, CM + '.escape_str')
        chars = [chr(i) for i in range(0x300)]
        tabs_ = per_item_tables(ex_, chars)
        inst = ex_.qual + ' :: passes exactly CHARSET'
        if not tabs_:
            raise AnalysisError('Component.escape_str: the character -> text rule was not found in a foldable form (C09.TBL.2)')
        badc = [(c_, t_[i_]) for (_x, t_) in tabs_ for i_, c_ in enumerate(chars)
                if t_[i_] != (c_ if c_ in cs else ''.join('%%%02X' % b_ for b_ in c_.encode('utf-8')))]
        if badc:
            R.fail('C09.TBL.2', inst, ex_.qual, tabs_[0][0], f'{len(badc)} character(s) are not passed / escaped as the rule says, e.g. {badc[0][0]!r} -> {badc[0][1]!r}', ex_.f.loc())
        else:
            R.ok('C09.TBL.2', inst, ex_.f.loc(), f'folded over {len(chars)} characters')
    ec = ctx(R, CM + '.escape_str.<escape_chr>') if (CM + '.escape_str.<escape_chr>') in P.funcs else None
    if ec is not None:
        ts = [t for t in ec.cfg.nodes if t.kind == 'test']
        inst = ec.qual + ' :: passes exactly CHARSET'
        if len(ts) == 1 and ast.unparse(ts[0].ast) == 'ch in CHARSET' and any("f'%{x:02X}'" in ast.unparse(r.ast) for r in returns(ec)):
            R.ok('C09.TBL.2', inst, ec.f.loc())
        else:
            R.fail('C09.TBL.2', inst, ec.qual, 'def escape_chr', 'escape_str does not escape exactly the characters outside CHARSET as %XX of their UTF-8 bytes', ec.f.loc())
    cf = ctx(R, CM + '.from_str')
    inst = cf.qual + ' :: characters outside CHARSET refused; % and = are the only metacharacters'
    lits = sorted({ast.unparse(t.ast) for t in cf.cfg.nodes if t.kind == 'test' and isinstance(t.ast, ast.Compare) and isinstance(t.ast.comparators[0], ast.Constant)
                   and isinstance(t.ast.comparators[0].value, str) and ast.unparse(t.ast.left) == 'ch'})
    if any(ast.unparse(t.ast) == 'ch not in CHARSET' for t in cf.cfg.nodes if t.kind == 'test') and lits == ["ch == '%'", "ch == '='"]:
        R.ok('C09.TBL.2', inst, cf.f.loc())
    else:
        R.fail('C09.TBL.2', inst, cf.qual, 'def from_str', f'URI parsing treats {lits} as metacharacters / does not refuse characters outside CHARSET', cf.f.loc())
    # ------------------------------------------------------------------ TBL.3 alternate URI tables
    R.ob('C09.TBL.3', 'naming-convention shorthands: ALTERNATE_URI_TYPE and ALTERNATE_URI_STR are inverse; digest prefixes agree in both directions')
    r1, r2 = P.lookup(CM, 'ALTERNATE_URI_TYPE'), P.lookup(CM, 'ALTERNATE_URI_STR')
    t1 = P.const_value(CM, r1[3]) if r1 else NOVALUE
    t2 = P.const_value(CM, r2[3]) if r2 else NOVALUE
    inst = 'ALTERNATE_URI_TYPE / ALTERNATE_URI_STR'
    if t1 is NOVALUE or t2 is NOVALUE:
        raise AnalysisError('cannot fold the alternate URI tables')
    inv = {v.split('=')[0]: k for k, v in t1.items()}
    spec = {'seg': 0x32, 'off': 0x34, 'v': 0x36, 't': 0x38, 'seq': 0x3A}
    if inv == t2 and all(v.endswith('={}') for v in t1.values()) and t2 == spec:
        R.ok('C09.TBL.3', inst, P.path_of(CM), str(t2))
    else:
        R.fail('C09.TBL.3', inst, CM, 'ALTERNATE_URI_STR', f'tables are not inverse / differ from the naming conventions: {t1} vs {t2}', P.path_of(CM))
    for lit, typ in (('sha256digest', 'TYPE_IMPLICIT_SHA256'), ('params-sha256', 'TYPE_PARAMETERS_SHA256')):
        def mentions(cx_, lit=lit, typ=typ):
            # the literal prefix (as a constant of its own, or at the head of a longer one) together with the type constant, in whatever
            # construct (comparison, table key, f-string): both directions must know the same prefix for the same type
            src_ = cx_.f.node
            lits_ = [x.value for x in ast.walk(src_) if isinstance(x, ast.Constant) and isinstance(x.value, str)]
            return any(v == lit or v.startswith(lit + '=') for v in lits_) and any(
                isinstance(x, (ast.Name, ast.Attribute)) and ast.unparse(x).split('.')[-1] == typ for x in ast.walk(src_))
        a_ = any(t.kind == 'test' and ast.unparse(t.ast) == f"typ_str == '{lit}'" for t in cf.cfg.nodes) or mentions(cf)
        b_ = (f'{lit}=' in ast.unparse(ts_.f.node) and any(t.kind == 'test' and ast.unparse(t.ast) == f'typ == {typ}' for t in ts_.cfg.nodes)) or mentions(ts_)
        inst = f'digest shorthand {lit}'
        if a_ and b_:
            R.ok('C09.TBL.3', inst, P.path_of(CM))
        else:
            R.fail('C09.TBL.3', inst, CM + '.to_str', lit, f'{lit}= is not handled symmetrically by from_str and to_str', P.path_of(CM))
    fn = ctx(R, CM + '.from_number')
    inst = fn.qual + ' :: shortest integer encoding'
    if all(ast.unparse(r.ast.value) == 'from_bytes(pack_uint_bytes(val), typ)' for r in returns(fn)):
        R.ok('C09.TBL.3', inst, fn.f.loc())
    else:
        R.fail('C09.TBL.3', inst, fn.qual, 'def from_number', 'typed numbers are not encoded with pack_uint_bytes (smallest width)', fn.f.loc())
    # ------------------------------------------------------------------ SIB.3 is_prefix / encode sizes
    R.ob('C09.SIB.3', 'is_prefix normalises both sides and compares a length-bounded slice; Name.encode and Name.encoded_length agree')
    ip = ctx(R, NM + '.is_prefix')
    src = strip_doc(ip.f.node)
    inst = ip.qual
    params = [a.arg for a in ip.f.node.args.args]
    rets = returns(ip)
    R.need(len(params) == 2 and rets, 'Name.is_prefix: two parameters and a return expected')
    probs = []
    # roles: a local is the left / right name when every binding that reaches its use is normalize(<first / second parameter>)
    d1 = {nm: v for n in ip.cfg.nodes for (nm, v) in ip.cfg.defs_of(n) if isinstance(v, ast.AST)}

    def role_at(node, nm):
        rs = set()
        for (d, v) in ip.cfg.defs_reaching(node, nm):
            if isinstance(v, ast.Call) and ast.unparse(v.func).rsplit('.', 1)[-1] == 'normalize' and len(v.args) == 1 \
                    and isinstance(v.args[0], ast.Name) and v.args[0].id in params:
                src_ = v.args[0].id
                # the argument is the raw parameter there (not an earlier re-binding to something else)
                rs.add('LR'[params.index(src_)])
            else:
                rs.add(('raw', nm) if isinstance(v, tuple) else ('other', ast.unparse(v) if isinstance(v, ast.AST) else str(v)))
        return rs
    roles = {}
    for r in rets:
        for x in ast.walk(r.ast.value):
            if isinstance(x, ast.Name) and isinstance(x.ctx, ast.Load) and (x.id in params or x.id in d1) and x.id not in ('len',):
                v_ = d1.get(x.id)
                if x.id not in params and isinstance(v_, ast.Call) and ast.unparse(v_.func) == 'len':
                    continue        # a length local: looked through by is_len
                rs = role_at(r, x.id)
                if rs in ({'L'}, {'R'}):
                    roles[x.id] = rs.pop()
                elif x.id in params:
                    bad = next(iter(rs - {'L', 'R'}), None)
                    what = 'the raw argument' if bad and bad[0] == 'raw' else f'`{bad[1]}`' if bad else 'either side'
                    probs.append((r.ast, f'`{x.id}` can reach the comparison as {what} instead of normalize({x.id}): the component-wise comparison is then made '
                                         'on something that is not a list of components'))
    if not probs:
        txt = {norm(r.ast) for r in rets}

        def is_role(e, want):
            return isinstance(e, ast.Name) and roles.get(e.id) == want

        def is_len(e, want):
            if isinstance(e, ast.Call) and ast.unparse(e.func) == 'len' and len(e.args) == 1:
                return is_role(e.args[0], want)
            if isinstance(e, ast.Name) and isinstance(d1.get(e.id), ast.Call) and ast.unparse(d1[e.id].func) == 'len' and len(d1[e.id].args) == 1:
                # `n = len(x)`: the role of x where n is defined
                dn = [n for n in ip.cfg.nodes if any(nm == e.id for (nm, _) in ip.cfg.defs_of(n))]
                a0 = d1[e.id].args[0]
                return len(dn) == 1 and isinstance(a0, ast.Name) and role_at(dn[0], a0.id) == {want}
            return False

        def slice_eq(c):
            """`L == R[:..]` in either order"""
            if not (isinstance(c, ast.Compare) and len(c.ops) == 1 and isinstance(c.ops[0], ast.Eq)):
                return False
            for a_, b_ in ((c.left, c.comparators[0]), (c.comparators[0], c.left)):
                if is_role(a_, 'L') and isinstance(b_, ast.Subscript) and is_role(b_.value, 'R') and isinstance(b_.slice, ast.Slice) and b_.slice.lower is None \
                        and b_.slice.step is None and b_.slice.upper is not None and is_len(b_.slice.upper, 'L'):
                    return True
            return False
        cmp_rets = [r for r in rets if not (isinstance(r.ast.value, ast.Constant) and r.ast.value.value is False)]
        sliced = bool(cmp_rets) and all(any(slice_eq(c) for c in ast.walk(r.ast.value)) for r in cmp_rets)
        if not sliced:
            raise AnalysisError(f'Name.is_prefix: unrecognised comparison {sorted(txt)} (cannot decide C09.SIB.3)')

        def len_le(c):
            """label-free: `len(L) <= len(R)` / `len(R) >= len(L)`"""
            if not (isinstance(c, ast.Compare) and len(c.ops) == 1):
                return False
            return (isinstance(c.ops[0], ast.LtE) and is_len(c.left, 'L') and is_len(c.comparators[0], 'R')) or \
                   (isinstance(c.ops[0], ast.GtE) and is_len(c.left, 'R') and is_len(c.comparators[0], 'L'))

        def bounded(r):
            # in the same expression ...
            if any(len_le(c) for c in ast.walk(r.ast.value)):
                return True
            # ... or by a guard `len(lhs) > len(rhs) -> return False` that every path to this return passes on its other edge
            for t in ip.cfg.nodes:
                if t.kind != 'test' or not (isinstance(t.ast, ast.Compare) and len(t.ast.ops) == 1):
                    continue
                c = t.ast
                lab_short = None        # edge on which the left name is longer than the right one
                if is_len(c.left, 'L') and is_len(c.comparators[0], 'R'):
                    lab_short = {ast.Gt: True, ast.LtE: False}.get(type(c.ops[0]))
                elif is_len(c.left, 'R') and is_len(c.comparators[0], 'L'):
                    lab_short = {ast.Lt: True, ast.GtE: False}.get(type(c.ops[0]))
                if lab_short is None:
                    continue
                longer = reach_from_succ(ip.cfg, t, lab_short, follow_exc=False)
                ends = [x for x in rets if x.id in longer]
                if ends and all(isinstance(x.ast.value, ast.Constant) and x.ast.value.value is False for x in ends) \
                        and r.id not in ip.cfg.reachable(removed_edges={(t.id, not lab_short)}, follow_exc=False):
                    return True
            return False
        if not all(bounded(r) for r in cmp_rets):
            probs.append((cmp_rets[0].ast, 'is_prefix compares a slice without bounding it by the length of the longer name'))
    if probs:
        for (c, what) in probs:
            R.fail('C09.SIB.3', inst, ip.qual, c, what, ip.f.loc())
    else:
        R.ok('C09.SIB.3', inst, ip.f.loc())
    el, en = ctx(R, NM + '.encoded_length'), ctx(R, NM + '.encode')

    def defs1(cx):
        d = {}
        for n in cx.cfg.nodes:
            for nm, v in cx.cfg.defs_of(n):
                if isinstance(v, ast.AST):
                    d.setdefault(nm, []).append(v)
        return {k: v[0] for k, v in d.items() if len(v) == 1}
    try:
        s1, s2 = defs1(el), defs1(en)
        ret = lin(returns(el)[0].ast.value, s1)
        alloc = [v for v in ast.walk(en.f.node) if isinstance(v, ast.Call) and ast.unparse(v.func) == 'bytearray']
        ok = len(alloc) == 1 and lin(alloc[0].args[0], s2) == ret
        ws = [c for (n, c) in sorted(calls_in_ctx(en, pred=lambda c: ast.unparse(c.func) == 'write_tl_num'), key=lambda x: x[0].id)]
        ok = ok and len(ws) == 2 and ast.unparse(ws[0].args[0]) == 'TYPE_NAME' and ast.unparse(ws[1].args[0]) == 'length'
        ok = ok and ast.unparse(s1.get('length')) == ast.unparse(s2.get('length'))
    except (NotLinear, IndexError):
        ok = False
    inst = 'Name.encode / encoded_length :: same size'
    if ok:
        R.ok('C09.SIB.3', inst, en.f.loc(), show(ret))
    else:
        R.fail('C09.SIB.3', inst, en.qual, 'def encode', 'Name.encode allocates / writes a different size than Name.encoded_length announces', en.f.loc())
    tb = ctx(R, NM + '.to_bytes')
    inst = tb.qual + ' :: encoded names pass through, others are normalised then encoded'
    if 'encode(normalize(name))' in ast.unparse(tb.f.node) and any(t.kind == 'test' and 'is_binary_str(name)' in ast.unparse(t.ast) for t in tb.cfg.nodes):
        R.ok('C09.SIB.3', inst, tb.f.loc())
    else:
        R.fail('C09.SIB.3', inst, tb.qual, 'def to_bytes', 'to_bytes is not encode(normalize(name)) for non-encoded input', tb.f.loc())
    R.assumptions += ['round-trip identity over all byte values and canonical ordering of arbitrary (non-library) encodings are not decided']
