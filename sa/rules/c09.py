"""C09 — name representations (URI, component list, wire) are mutually consistent (structural part). DESIGN §4 C09."""
import ast
import string

from .common import ctx, returns, calls_in_ctx, reach_from_succ, site, srcs_text, orient
from ..flow import callee_attr
from ..linexpr import lin, show, NotLinear
from ..loader import AnalysisError, norm, NOVALUE
from ..tlvtables import varnum_tables, compare_varnum

NM = 'ndn.encoding.name.Name'
CM = 'ndn.encoding.name.Component'
TM = 'ndn.encoding.tlv_model'
ELEM = 'Component.from_str(Component.escape_str(comp))'


def fold_charset(P):
    r = P.lookup(CM, 'CHARSET')
    if not (r and r[0] == 'const'):
        raise AnalysisError('Component.CHARSET not found')

    def ev(e):
        if isinstance(e, ast.BinOp) and isinstance(e.op, ast.BitOr):
            return ev(e.left) | ev(e.right)
        if isinstance(e, ast.Call) and isinstance(e.func, ast.Name) and e.func.id == 'set' and len(e.args) == 1:
            a = e.args[0]
            if isinstance(a, ast.Attribute) and isinstance(a.value, ast.Name) and a.value.id == 'string' and hasattr(string, a.attr):
                return set(getattr(string, a.attr))
            if isinstance(a, ast.Constant) and isinstance(a.value, str):
                return set(a.value)
        if isinstance(e, ast.Set):
            return {x.value for x in e.elts if isinstance(x, ast.Constant)}
        v = P.const_value(CM, e)
        if v is not NOVALUE and isinstance(v, (set, frozenset)):
            return set(v)
        raise AnalysisError('cannot fold CHARSET: ' + ast.unparse(e)[:60])
    return ev(r[3])


def is_elem_conv(x):
    """`Component.from_str(Component.escape_str(<name>))` whatever the loop variable is called"""
    return isinstance(x, ast.Call) and ast.unparse(x.func) in ('Component.from_str', 'from_str') and len(x.args) == 1 and isinstance(x.args[0], ast.Call) \
        and ast.unparse(x.args[0].func) in ('Component.escape_str', 'escape_str') and len(x.args[0].args) == 1 and isinstance(x.args[0].args[0], ast.Name)


def normaliser_table(cx, var):
    """which conversion each input form gets in a NonStrictName normaliser: dict form -> description"""
    t = {}
    src = cx.f.node
    for n in cx.cfg.nodes:
        for c in n.calls():
            txt = ast.unparse(c)
            if txt.startswith('Name.from_str(') or txt.startswith('from_str('):
                t['str'] = 'from_str'
            if txt in ('Name.decode(name)[0]', 'decode(name)[0]') or txt.startswith(('Name.decode(', 'decode(')):
                t['binary'] = 'decode'
        for x in n.walk():
            if isinstance(x, ast.Call) and is_elem_conv(x):
                t['elem_str'] = 'from_str(escape_str)'
    raises = [n for n in cx.cfg.nodes if n.kind == 'raise' and n.ast.exc is not None and 'TypeError' in ast.unparse(n.ast.exc)]
    t['n_typeerror'] = len(raises)
    tests = [ast.unparse(x.ast) for x in cx.cfg.nodes if x.kind == 'test']
    t['tests'] = tests
    return t


def run(R):
    P = R.P
    # ------------------------------------------------------------------ TBL.1
    R.ob('C09.TBL.1', 'type/length numbers are written in their shortest form (byte order of encoded components = canonical order)')
    tabs = varnum_tables(P, ('get_tl_num_size', 'write_tl_num'))
    for (what, a, b, okay, detail) in compare_varnum(tabs, only=('get_tl_num_size', 'write_tl_num')):
        inst = f'{a} :: {what}'
        if okay:
            R.ok('C09.TBL.1', inst, tabs[a]['site'], detail)
        else:
            R.fail('C09.TBL.1', inst, 'ndn.encoding.tlv_var.' + a, what, f'{a}: {what}: {detail}', tabs[a]['site'])
    fb = ctx(R, CM + '.from_bytes')
    try:
        sub = {}
        for n in fb.cfg.nodes:
            for nm, v in fb.cfg.defs_of(n):
                if isinstance(v, ast.AST):
                    sub.setdefault(nm, []).append(v)
        sub = {k: v[0] for k, v in sub.items() if len(v) == 1}
        bufs = [v for v in sub.values() if isinstance(v, ast.Call) and ast.unparse(v.func) == 'bytearray']
        want = {'get_tl_num_size(typ)': 1, 'get_tl_num_size(len(val))': 1, 'len(val)': 1}
        ws = [c for (n, c) in sorted(calls_in_ctx(fb, pred=lambda c: ast.unparse(c.func) == 'write_tl_num'), key=lambda x: x[0].id)]
        def off(c):      # the offset argument of write_tl_num (default 0)
            return c.args[2] if len(c.args) > 2 else next((k.value for k in c.keywords if k.arg == 'offset'), ast.Constant(0))
        ok = len(bufs) == 1 and lin(bufs[0].args[0], sub) == want and len(ws) == 2 and ast.unparse(ws[0].args[0]) == 'typ' and lin(off(ws[0]), sub) == {} \
            and ast.unparse(ws[1].args[0]) == 'len(val)' and lin(off(ws[1]), sub) == {'get_tl_num_size(typ)': 1}
        st = [n for n in fb.cfg.nodes if n.kind == 'stmt' and isinstance(n.ast, ast.Assign) and isinstance(n.ast.targets[0], ast.Subscript)]
        ok = ok and len(st) == 1 and lin(st[0].ast.targets[0].slice.lower, sub) == {'get_tl_num_size(typ)': 1, 'get_tl_num_size(len(val))': 1} and ast.unparse(st[0].ast.value) == 'val'
    except NotLinear:
        ok = False
    inst = fb.qual + ' :: component = TL(typ) TL(len) value'
    if ok:
        R.ok('C09.TBL.1', inst, site(fb, fb.f.node))
    else:
        R.fail('C09.TBL.1', inst, fb.qual, 'def from_bytes', 'a component is not assembled as shortest Type, shortest Length, value', site(fb, fb.f.node))
    rng = [t for t in fb.cfg.nodes if t.kind == 'test' and ast.unparse(t.ast) in ('typ <= 0', 'typ > MAX_COMPONENT_TYPE_VALUE')]
    inst = fb.qual + ' :: type range 1..65535 enforced'
    if len(rng) == 2 and P.const_value(CM, ast.parse('MAX_COMPONENT_TYPE_VALUE', mode='eval').body) == 65535:
        R.ok('C09.TBL.1', inst, site(fb, rng[0].ast))
    else:
        R.fail('C09.TBL.1', inst, fb.qual, 'def from_bytes', 'component types outside 1..65535 are not refused', site(fb, fb.f.node))

    # ------------------------------------------------------------------ SIB.1 the three normalisers
    R.ob('C09.SIB.1', 'the three NonStrictName normalisers (Name.normalize, NameField, InterestNameField) treat every input form the same way')
    norms = {'Name.normalize': ctx(R, NM + '.normalize'), 'NameField.encoded_length': ctx(R, TM + '.NameField.encoded_length'),
             'InterestNameField.encoded_length': ctx(R, TM + '.InterestNameField.encoded_length')}
    tabs_n = {k: normaliser_table(v, 'name') for k, v in norms.items()}
    for k, t in tabs_n.items():
        cx = norms[k]
        inst = f'{k} :: input forms'
        probs = []
        if t.get('str') != 'from_str':
            probs.append('a URI string is not parsed with Name.from_str')
        if t.get('elem_str') != 'from_str(escape_str)':
            probs.append('text components of a list are not converted with Component.from_str(Component.escape_str(c))')
        if k != 'NameField.encoded_length' and t.get('binary') != 'decode':
            probs.append('an encoded name is not decoded into components')
        if t['n_typeerror'] < 2:
            probs.append(f'only {t["n_typeerror"]} TypeError refusals (name of wrong type / component of wrong type)')
        if not any('isinstance' in x and 'str' in x for x in t['tests']) or not any('is_binary_str' in x for x in t['tests']):
            probs.append('input form is not dispatched on str / binary / iterable')
        if probs:
            R.fail('C09.SIB.1', inst, cx.qual, 'def ' + cx.f.node.name, '; '.join(probs), site(cx, cx.f.node))
        else:
            R.ok('C09.SIB.1', inst, site(cx, cx.f.node))
    # Name.normalize: element conversion only under isinstance(comp, str), binary passes through, result is a new list
    nz = norms['Name.normalize']
    # the statement that converts a text component: only under isinstance(<that component>, str); the result is a list of its own
    st = [n for n in nz.cfg.nodes if n.kind == 'stmt' and isinstance(n.ast, ast.Assign) and is_elem_conv(n.ast.value)]
    cvar = st[0].ast.value.args[0].args[0].id if st else None
    ts = [t for t in nz.cfg.nodes if t.kind == 'test' and ast.unparse(t.ast) == f'isinstance({cvar}, str)']
    inst = 'Name.normalize :: per-component conversion'
    pn = nz.f.node.args.args[0].arg
    fresh = any(isinstance(v, ast.AST) and (ast.unparse(v) == f'list({pn})' or (isinstance(v, ast.List) and not v.elts))
                for r_ in returns(nz) if isinstance(r_.ast.value, ast.Name) for (d_, v) in nz.cfg.defs_reaching(r_, r_.ast.value.id))
    if len(st) == 1 and len(ts) == 1 and st[0].id not in nz.cfg.reachable(removed_edges={(ts[0].id, True)}) and fresh:
        R.ok('C09.SIB.1', inst, site(nz, st[0].ast))
    else:
        R.fail('C09.SIB.1', inst, nz.qual, st[0].ast if st else 'def normalize', 'components are not converted exactly when they are text (or the caller\'s list is modified)',
               site(nz, nz.f.node))
    # ------------------------------------------------------------------ SIB.2 to_str vs to_canonical_uri
    R.ob('C09.SIB.2', 'Component.to_str and to_canonical_uri share the byte->text rule; Name.to_str / to_canonical_uri differ only in the component function')
    ts_, tc_ = ctx(R, CM + '.to_str'), ctx(R, CM + '.to_canonical_uri')
    d1 = P.funcs.get(CM + '.to_str.<decode>')
    d2 = P.funcs.get(CM + '.to_canonical_uri.<decode>')
    inst = 'Component.to_str / to_canonical_uri :: byte escaping rule'
    if d1 and d2 and ast.dump(d1.node) == ast.dump(d2.node):
        R.ok('C09.SIB.2', inst, d1.loc())
    elif d1 is None and d2 is None:
        R.ok('C09.SIB.2', inst, ts_.f.loc(), 'shared helper')
    else:
        R.fail('C09.SIB.2', inst, CM + '.to_canonical_uri', 'def decode', 'the two URI writers escape bytes differently', tc_.f.loc())
    for cx in (ts_, tc_):
        inst = f'{cx.qual} :: malformed component refused, typed prefix'
        par = cx.f.node.args.args[0].arg

        def is_len_check(t):
            a = t.ast
            if not (isinstance(a, ast.Compare) and len(a.ops) == 1 and isinstance(a.ops[0], ast.NotEq)):
                return False
            try:
                d = lin(ast.BinOp(left=a.left, op=ast.Sub(), right=a.comparators[0]))
            except NotLinear:
                return False
            k = d.get(f'len({par})', 0)
            rest = {t_: c for t_, c in d.items() if t_ != f'len({par})'}
            return k in (1, -1) and len(rest) == 2 and all(c == -k for c in rest.values()) and 1 not in rest
        chk = [t for t in cx.cfg.nodes if t.kind == 'test' and is_len_check(t)]
        gen = [t for t in cx.cfg.nodes if t.kind == 'test' and isinstance(t.ast, ast.Compare) and len(t.ast.ops) == 1 and isinstance(t.ast.ops[0], ast.NotEq)
               and 'TYPE_GENERIC' in {ast.unparse(t.ast.left).rsplit('.', 1)[-1], ast.unparse(t.ast.comparators[0]).rsplit('.', 1)[-1]}]
        if chk and gen:
            R.ok('C09.SIB.2', inst, site(cx, chk[0].ast))
        else:
            R.fail('C09.SIB.2', inst, cx.qual, 'def ' + cx.f.node.name, 'length check / non-generic type prefix missing', site(cx, cx.f.node))
    n1, n2 = P.func(NM + '.to_str'), P.func(NM + '.to_canonical_uri')
    a = ast.unparse(n1.node).replace('Component.to_str', 'F').replace('def to_str', 'def f')
    b = ast.unparse(n2.node).replace('Component.to_canonical_uri', 'F').replace('def to_canonical_uri', 'def f')

    def strip_doc(fn):
        body = fn.body[1:] if fn.body and isinstance(fn.body[0], ast.Expr) and isinstance(fn.body[0].value, ast.Constant) else fn.body
        return '\n'.join(ast.unparse(s) for s in body)
    a = strip_doc(n1.node).replace('Component.to_str', 'F')
    b = strip_doc(n2.node).replace('Component.to_canonical_uri', 'F')
    inst = 'Name.to_str / to_canonical_uri :: same slash handling'
    R.touch(n1, n2)
    import re as _re
    from ..alpha import alpha_form
    same = a == b
    if not same:
        # same up to the names of locals
        fa_ = ast.parse(ast.unparse(n1.node).replace('Component.to_str', 'F'))
        fb_ = ast.parse(ast.unparse(n2.node).replace('Component.to_canonical_uri', 'F'))
        same = alpha_form(fa_.body[0])[0] == alpha_form(fb_.body[0])[0]
    if same and "'/' + '/'.join(" in a and _re.search(r"\w+\[-1\] == b'\\x08\\x00'", a):
        R.ok('C09.SIB.2', inst, n1.loc())
    else:
        R.fail('C09.SIB.2', inst, NM + '.to_canonical_uri', 'def to_canonical_uri', 'the two name writers differ beyond the component function (leading slash, separator, trailing empty component)', n2.loc())
    # Name.from_str slash handling
    fs = ctx(R, NM + '.from_str')
    inst = 'Name.from_str :: leading / trailing slash and empty components'
    src = strip_doc(fs.f.node)
    conv = _re.search(r'Component\.from_str\(Component\.escape_str\(\w+\)\)', src) is not None
    okf = "val.startswith('/')" in src and "val.endswith('/')" in src and _re.search(r'\w+ <= 1', src) is not None and "val.split('/')" in src and conv
    if okf:
        R.ok('C09.SIB.2', inst, fs.f.loc())
    elif "val.split('/')" in src and not conv:
        R.fail('C09.SIB.2', inst, fs.qual, 'def from_str', 'URI components are not converted with Component.from_str(Component.escape_str(c)) like the other normalisers', fs.f.loc())
    else:
        raise AnalysisError('Name.from_str: slash handling has an unrecognised shape (cannot decide C09.SIB.2)')
    # ------------------------------------------------------------------ TBL.2 CHARSET
    R.ob('C09.TBL.2', 'URI character classes: raw characters = CHARSET - {%, =}; metacharacters and the separator are never emitted raw; escape_str passes exactly CHARSET')
    cs = fold_charset(P)
    want = set(string.ascii_letters) | set(string.digits) | set('-._~=%')
    inst = 'Component.CHARSET'
    if cs == want:
        R.ok('C09.TBL.2', inst, P.path_of(CM), f'{len(cs)} characters')
    else:
        R.fail('C09.TBL.2', inst, CM, 'CHARSET', f'CHARSET differs from unreserved + {{=, %}}: extra {sorted(cs - want)}, missing {sorted(want - cs)}', P.path_of(CM))
    if '/' in cs:
        R.fail('C09.TBL.2', 'CHARSET :: separator', CM, 'CHARSET', 'the name separator / is in CHARSET (would be emitted raw inside a component)', P.path_of(CM))
    for fq in (CM + '.to_str.<decode>', CM + '.to_canonical_uri.<decode>'):
        if fq not in P.funcs:
            continue
        dx = ctx(R, fq)
        ts = [t for t in dx.cfg.nodes if t.kind == 'test']
        txt = ' and '.join(ast.unparse(t.ast) for t in ts)
        inst = f'{fq} :: raw iff in CHARSET and not a metacharacter'
        excl = None
        for t in ts:
            if isinstance(t.ast, ast.Compare) and isinstance(t.ast.ops[0], ast.NotIn) and isinstance(t.ast.comparators[0], ast.Set):
                excl = {e.value for e in t.ast.comparators[0].elts if isinstance(e, ast.Constant)}
        inc = any(ast.unparse(t.ast) == 'ret in CHARSET' for t in ts)
        if inc and excl == {'%', '='}:
            R.ok('C09.TBL.2', inst, dx.f.loc())
        else:
            R.fail('C09.TBL.2', inst, fq, 'def decode', f'bytes are emitted raw under `{txt}`: the metacharacters % and = must always be escaped', dx.f.loc())
    ec = ctx(R, CM + '.escape_str.<escape_chr>')
    ts = [t for t in ec.cfg.nodes if t.kind == 'test']
    inst = ec.qual + ' :: passes exactly CHARSET'
    if len(ts) == 1 and ast.unparse(ts[0].ast) == 'ch in CHARSET' and any("f'%{x:02X}'" in ast.unparse(r.ast) for r in returns(ec)):
        R.ok('C09.TBL.2', inst, ec.f.loc())
    else:
        R.fail('C09.TBL.2', inst, ec.qual, 'def escape_chr', 'escape_str does not escape exactly the characters outside CHARSET as %XX of their UTF-8 bytes', ec.f.loc())
    cf = ctx(R, CM + '.from_str')
    inst = cf.qual + ' :: characters outside CHARSET refused; % and = are the only metacharacters'
    lits = sorted({ast.unparse(t.ast) for t in cf.cfg.nodes if t.kind == 'test' and isinstance(t.ast, ast.Compare) and isinstance(t.ast.comparators[0], ast.Constant)
                   and isinstance(t.ast.comparators[0].value, str) and ast.unparse(t.ast.left) == 'ch'})
    if any(ast.unparse(t.ast) == 'ch not in CHARSET' for t in cf.cfg.nodes if t.kind == 'test') and lits == ["ch == '%'", "ch == '='"]:
        R.ok('C09.TBL.2', inst, cf.f.loc())
    else:
        R.fail('C09.TBL.2', inst, cf.qual, 'def from_str', f'URI parsing treats {lits} as metacharacters / does not refuse characters outside CHARSET', cf.f.loc())
    # ------------------------------------------------------------------ TBL.3 alternate URI tables
    R.ob('C09.TBL.3', 'naming-convention shorthands: ALTERNATE_URI_TYPE and ALTERNATE_URI_STR are inverse; digest prefixes agree in both directions')
    r1, r2 = P.lookup(CM, 'ALTERNATE_URI_TYPE'), P.lookup(CM, 'ALTERNATE_URI_STR')
    t1 = P.const_value(CM, r1[3]) if r1 else NOVALUE
    t2 = P.const_value(CM, r2[3]) if r2 else NOVALUE
    inst = 'ALTERNATE_URI_TYPE / ALTERNATE_URI_STR'
    if t1 is NOVALUE or t2 is NOVALUE:
        raise AnalysisError('cannot fold the alternate URI tables')
    inv = {v.split('=')[0]: k for k, v in t1.items()}
    spec = {'seg': 0x32, 'off': 0x34, 'v': 0x36, 't': 0x38, 'seq': 0x3A}
    if inv == t2 and all(v.endswith('={}') for v in t1.values()) and t2 == spec:
        R.ok('C09.TBL.3', inst, P.path_of(CM), str(t2))
    else:
        R.fail('C09.TBL.3', inst, CM, 'ALTERNATE_URI_STR', f'tables are not inverse / differ from the naming conventions: {t1} vs {t2}', P.path_of(CM))
    for lit, typ in (('sha256digest', 'TYPE_IMPLICIT_SHA256'), ('params-sha256', 'TYPE_PARAMETERS_SHA256')):
        a_ = any(t.kind == 'test' and ast.unparse(t.ast) == f"typ_str == '{lit}'" for t in cf.cfg.nodes)
        b_ = f'{lit}=' in ast.unparse(ts_.f.node) and any(t.kind == 'test' and ast.unparse(t.ast) == f'typ == {typ}' for t in ts_.cfg.nodes)
        inst = f'digest shorthand {lit}'
        if a_ and b_:
            R.ok('C09.TBL.3', inst, P.path_of(CM))
        else:
            R.fail('C09.TBL.3', inst, CM + '.to_str', lit, f'{lit}= is not handled symmetrically by from_str and to_str', P.path_of(CM))
    fn = ctx(R, CM + '.from_number')
    inst = fn.qual + ' :: shortest integer encoding'
    if all(ast.unparse(r.ast.value) == 'from_bytes(pack_uint_bytes(val), typ)' for r in returns(fn)):
        R.ok('C09.TBL.3', inst, fn.f.loc())
    else:
        R.fail('C09.TBL.3', inst, fn.qual, 'def from_number', 'typed numbers are not encoded with pack_uint_bytes (smallest width)', fn.f.loc())
    # ------------------------------------------------------------------ SIB.3 is_prefix / encode sizes
    R.ob('C09.SIB.3', 'is_prefix normalises both sides and compares a length-bounded slice; Name.encode and Name.encoded_length agree')
    ip = ctx(R, NM + '.is_prefix')
    src = strip_doc(ip.f.node)
    inst = ip.qual
    params = [a.arg for a in ip.f.node.args.args]
    rets = returns(ip)
    R.need(len(params) == 2 and rets, 'Name.is_prefix: two parameters and a return expected')
    probs = []
    for r in rets:
        for p_ in params:
            if not any(isinstance(x, ast.Name) and x.id == p_ for x in ast.walk(r.ast.value)):
                continue
            for (d, v) in ip.cfg.defs_reaching(r, p_):
                if not (isinstance(v, ast.Call) and ast.unparse(v.func).rsplit('.', 1)[-1] == 'normalize' and len(v.args) == 1
                        and isinstance(v.args[0], ast.Name) and v.args[0].id == p_):
                    what = 'the raw argument' if isinstance(v, tuple) else f'`{ast.unparse(v)}`'
                    probs.append((r.ast, f'`{p_}` can reach the comparison as {what} instead of normalize({p_}): the component-wise comparison is then made '
                                         'on something that is not a list of components'))
    if not probs:
        txt = {norm(r.ast) for r in rets}
        d1 = {nm: v for n in ip.cfg.nodes for (nm, v) in ip.cfg.defs_of(n) if isinstance(v, ast.AST)}

        def is_len(e, par):
            return ast.unparse(e) == f'len({par})' or (isinstance(e, ast.Name) and ast.unparse(d1.get(e.id, e)) == f'len({par})')
        cmp_rets = [r for r in rets if not (isinstance(r.ast.value, ast.Constant) and r.ast.value.value is False)]
        sliced = bool(cmp_rets) and all(any(isinstance(c, ast.Compare) and isinstance(c.ops[0], ast.Eq) and ast.unparse(c.left) == params[0] and
                                            isinstance(c.comparators[0], ast.Subscript) and isinstance(c.comparators[0].slice, ast.Slice)
                                            and c.comparators[0].slice.lower is None for c in ast.walk(r.ast.value)) for r in cmp_rets)
        if not sliced:
            raise AnalysisError(f'Name.is_prefix: unrecognised comparison {sorted(txt)} (cannot decide C09.SIB.3)')

        def bounded(r):
            # in the same expression ...
            if any(isinstance(c, ast.Compare) and len(c.ops) == 1 and isinstance(c.ops[0], ast.LtE) and is_len(c.left, params[0]) and is_len(c.comparators[0], params[1])
                   for c in ast.walk(r.ast.value)):
                return True
            # ... or by a guard `len(lhs) > len(rhs) -> return False` that every path to this return passes on its other edge
            for t in ip.cfg.nodes:
                if t.kind != 'test':
                    continue
                o = orient(t.ast, lambda e: is_len(e, params[0]))
                if o is None or not is_len(o.comparators[0], params[1]):
                    continue
                lab_short = {ast.Gt: True, ast.LtE: False}.get(type(o.ops[0]))      # edge on which lhs is longer than rhs
                if lab_short is None:
                    continue
                longer = reach_from_succ(ip.cfg, t, lab_short, follow_exc=False)
                ends = [x for x in rets if x.id in longer]
                if ends and all(isinstance(x.ast.value, ast.Constant) and x.ast.value.value is False for x in ends) \
                        and r.id not in ip.cfg.reachable(removed_edges={(t.id, not lab_short)}, follow_exc=False):
                    return True
            return False
        if not all(bounded(r) for r in cmp_rets):
            probs.append((cmp_rets[0].ast, 'is_prefix compares a slice without bounding it by the length of the longer name'))
    if probs:
        for (c, what) in probs:
            R.fail('C09.SIB.3', inst, ip.qual, c, what, ip.f.loc())
    else:
        R.ok('C09.SIB.3', inst, ip.f.loc())
    el, en = ctx(R, NM + '.encoded_length'), ctx(R, NM + '.encode')

    def defs1(cx):
        d = {}
        for n in cx.cfg.nodes:
            for nm, v in cx.cfg.defs_of(n):
                if isinstance(v, ast.AST):
                    d.setdefault(nm, []).append(v)
        return {k: v[0] for k, v in d.items() if len(v) == 1}
    try:
        s1, s2 = defs1(el), defs1(en)
        ret = lin(returns(el)[0].ast.value, s1)
        alloc = [v for v in ast.walk(en.f.node) if isinstance(v, ast.Call) and ast.unparse(v.func) == 'bytearray']
        ok = len(alloc) == 1 and lin(alloc[0].args[0], s2) == ret
        ws = [c for (n, c) in sorted(calls_in_ctx(en, pred=lambda c: ast.unparse(c.func) == 'write_tl_num'), key=lambda x: x[0].id)]
        ok = ok and len(ws) == 2 and ast.unparse(ws[0].args[0]) == 'TYPE_NAME' and ast.unparse(ws[1].args[0]) == 'length'
        ok = ok and ast.unparse(s1.get('length')) == ast.unparse(s2.get('length'))
    except (NotLinear, IndexError):
        ok = False
    inst = 'Name.encode / encoded_length :: same size'
    if ok:
        R.ok('C09.SIB.3', inst, en.f.loc(), show(ret))
    else:
        R.fail('C09.SIB.3', inst, en.qual, 'def encode', 'Name.encode allocates / writes a different size than Name.encoded_length announces', en.f.loc())
    tb = ctx(R, NM + '.to_bytes')
    inst = tb.qual + ' :: encoded names pass through, others are normalised then encoded'
    if 'encode(normalize(name))' in ast.unparse(tb.f.node) and any(t.kind == 'test' and 'is_binary_str(name)' in ast.unparse(t.ast) for t in tb.cfg.nodes):
        R.ok('C09.SIB.3', inst, tb.f.loc())
    else:
        R.fail('C09.SIB.3', inst, tb.qual, 'def to_bytes', 'to_bytes is not encode(normalize(name)) for non-encoded input', tb.f.loc())
    R.assumptions += ['round-trip identity over all byte values and canonical ordering of arbitrary (non-library) encodings are not decided']
