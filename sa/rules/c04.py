"""C04 — longest-prefix dispatch, attach/detach, reply (DESIGN §4 C04)."""
import ast

from .common import (ctx, family, tests_on, returns, const_bool, calls_in_ctx, reach_from_succ, self_attr, site,
                     srcs_text, is_call_to, int_truthiness_uses, resolve_call)
from ..flow import callee_attr
from ..loader import AnalysisError, norm

NORMALIZE = 'ndn.encoding.name.Name.normalize'
NAMETRIE = ('ndn.name_tree', 'NameTrie')

DISPATCH = [('ndn.appv2.NDNApp._on_interest', '_fib'), ('ndn.app.NDNApp._on_interest', '_prefix_tree'),
            ('ndn.app_support.dispatcher.Dispatcher.dispatch', '_tree')]
# functions that hand a caller-supplied name to a prefix trie: (function, trie attribute, parameter)
KEYED = [('ndn.appv2.NDNApp.attach_handler', '_fib'), ('ndn.appv2.NDNApp.detach_handler', '_fib'),
         ('ndn.app.NDNApp.set_interest_filter', '_prefix_tree'), ('ndn.app.NDNApp.unset_interest_filter', '_prefix_tree'),
         ('ndn.app.NDNApp.unregister', '_prefix_tree'),
         ('ndn.app_support.dispatcher.Dispatcher.register', '_tree'),
         ('ndn.app_support.dispatcher.Dispatcher.unregister', '_tree')]
ATTACH = [('ndn.appv2.NDNApp.attach_handler', '_fib'), ('ndn.app.NDNApp.set_interest_filter', '_prefix_tree'),
          ('ndn.app_support.dispatcher.Dispatcher.register', '_tree')]
DETACH = [('ndn.appv2.NDNApp.detach_handler', '_fib'), ('ndn.app.NDNApp.unset_interest_filter', '_prefix_tree'),
          ('ndn.app.NDNApp.unregister', '_prefix_tree'), ('ndn.app_support.dispatcher.Dispatcher.unregister', '_tree')]


def is_normalize_of_param(P, cx, node, e, depth=0):
    """e (evaluated at node) is Name.normalize(<parameter>) or a plain copy of such a value; returns
    ('ok'|'wrong'|'unknown', description)"""
    srcs = cx.sources(node, e)
    verdicts = []
    for s in srcs:
        if s.kind == 'expr' and isinstance(s.expr, ast.Call) and is_call_to(P, s.ctx.f.mod, s.expr, NORMALIZE):
            inner = s.ctx.sources(s.node, s.expr.args[0]) if s.expr.args else []
            if inner and all(i.kind == 'param' or
                             (i.kind == 'expr' and isinstance(i.expr, ast.Call)
                              and is_call_to(P, i.ctx.f.mod, i.expr, NORMALIZE)) for i in inner):
                verdicts.append('ok')
            else:
                verdicts.append('wrong')
        elif s.kind == 'param':
            # a parameter used raw as a trie key
            verdicts.append('raw')
        else:
            verdicts.append('other')
    return verdicts, srcs_text(srcs)


def trie_accesses(cx, attr):
    """(cfg node, kind, key expr) for every use of self.<attr> as a mapping in cx"""
    out = []
    for n in cx.cfg.nodes:
        roots = list(n.exprs())
        for x in n.walk():
            if isinstance(x, ast.Subscript) and self_attr(x.value, attr):
                kind = {'Load': 'get', 'Store': 'set', 'Del': 'del'}[type(x.ctx).__name__]
                out.append((n, kind, x.slice))
            elif isinstance(x, ast.Call) and isinstance(x.func, ast.Attribute) and self_attr(x.func.value, attr):
                if x.func.attr in ('setdefault', 'pop', 'get', 'has_key', 'has_node', 'has_subtrie', '__delitem__',
                                   '__setitem__', '__getitem__') and x.args:
                    out.append((n, x.func.attr, x.args[0]))
            elif isinstance(x, ast.Compare) and any(self_attr(c, attr) for c in x.comparators) \
                    and any(isinstance(o, (ast.In, ast.NotIn)) for o in x.ops):
                out.append((n, 'in', x.left))
    return out


def loop_as_comprehension(fn, lst):
    """`lst = []; for T in I: <if-tree of lst.append(E)>; return lst` read back as the comprehension `[E' for T in I]` with E' a
    conditional expression; None when the loop does more than append exactly one element per iteration"""
    inits = [s for s in ast.walk(fn) if isinstance(s, ast.Assign) and len(s.targets) == 1 and ast.unparse(s.targets[0]) == lst]
    loops = [s for s in ast.walk(fn) if isinstance(s, ast.For) and any(
        isinstance(c, ast.Call) and callee_attr(c) == 'append' and ast.unparse(c.func.value) == lst for c in ast.walk(s))]
    if len(inits) != 1 or not (isinstance(inits[0].value, ast.List) and not inits[0].value.elts) or len(loops) != 1:
        return None

    def block_value(stmts, res):
        """the value an expanded helper body leaves in `res`, as a conditional expression; None if it does more than choose a value"""
        stmts = [x for x in stmts if type(x).__name__ != 'InlineExit']
        if len(stmts) == 1 and isinstance(stmts[0], ast.Assign) and len(stmts[0].targets) == 1 and ast.unparse(stmts[0].targets[0]) == res:
            return stmts[0].value
        if stmts and isinstance(stmts[0], ast.If):
            a = block_value(stmts[0].body, res)
            b = block_value(stmts[0].orelse if stmts[0].orelse else stmts[1:], res)
            if a is not None and b is not None and (not stmts[0].orelse or len(stmts) == 1):
                return ast.IfExp(test=stmts[0].test, body=a, orelse=b)
        return None

    def elt(body):
        if len(body) == 2 and type(body[0]).__name__ == 'InlineBlock' and isinstance(body[1], ast.Expr) and isinstance(body[1].value, ast.Call) \
                and callee_attr(body[1].value) == 'append' and ast.unparse(body[1].value.func.value) == lst and len(body[1].value.args) == 1 \
                and isinstance(body[1].value.args[0], ast.Name):
            return block_value(body[0].body, body[1].value.args[0].id)
        if len(body) == 1 and isinstance(body[0], ast.Expr) and isinstance(body[0].value, ast.Call) and callee_attr(body[0].value) == 'append' \
                and ast.unparse(body[0].value.func.value) == lst and len(body[0].value.args) == 1:
            return body[0].value.args[0]
        if len(body) == 1 and isinstance(body[0], ast.If) and body[0].orelse:
            a, b = elt(body[0].body), elt(body[0].orelse)
            if a is not None and b is not None:
                return ast.IfExp(test=body[0].test, body=a, orelse=b)
        return None
    e = elt(loops[0].body)
    if e is None or loops[0].orelse:
        return None
    return ast.ListComp(elt=e, generators=[ast.comprehension(target=loops[0].target, iter=loops[0].iter, ifs=[], is_async=0)])


def run(R):
    P = R.P
    # ---------------------------------------------------------------- C04.PRV.1
    R.ob('C04.PRV.1', 'the node whose callback is invoked comes from <prefix trie>.longest_prefix(<Interest name>)')
    R.ob('C04.MPT.2', 'the trie step is tested for a match before its value is used (no handler when nothing matches)')
    R.ob('C04.LOP.1', 'at most one callback invocation on any path of a dispatch')
    for qual, trie in DISPATCH:
        fam = family(R, qual)
        cbs = []
        for cx in fam:
            for (n, c) in calls_in_ctx(cx, attr='callback'):
                cbs.append((cx, n, c))
        R.need(cbs, f'{qual}: no callback invocation found (anchor changed shape)')
        top = fam[0]
        pname = [a.arg for a in top.f.node.args.args if a.arg != 'self'][0]
        for (cx, n, c) in cbs:
            recv = c.func.value        # <node>.callback
            ok, why, lookups = True, '', []
            for s in cx.sources(n, recv):
                # expected: <step>.value  with  step := self.<trie>.longest_prefix(name)
                e = s.expr if s.kind == 'expr' else None
                if isinstance(e, ast.Attribute) and e.attr == 'value':
                    for s2 in s.ctx.sources(s.node, e.value):
                        e2 = s2.expr if s2.kind == 'expr' else None
                        if isinstance(e2, ast.Call) and isinstance(e2.func, ast.Attribute) and self_attr(e2.func.value):
                            lookups.append((s2, e2))
                        else:
                            ok, why = False, f'trie step comes from {s2.text()}'
                elif s.kind == 'unpack' and s.extra == 1 and isinstance(s.expr, ast.Call) and isinstance(s.expr.func, ast.Attribute) and self_attr(s.expr.func.value):
                    # `key, node = self.<trie>.longest_prefix(name)`: the step unpacked into (matched key, value)
                    lookups.append((s, s.expr))
                    # MPT.2 for this form: the node is used only behind a test that a prefix matched. The matched key may be the empty name
                    # (a handler attached at `/`), which is falsy: its truthiness says nothing; `is None` tests of key / node do.
                    tgt = s.node.ast.targets[0] if s.node.kind == 'stmt' and isinstance(s.node.ast, ast.Assign) else None
                    names = [e_.id for e_ in tgt.elts if isinstance(e_, ast.Name)] if isinstance(tgt, ast.Tuple) else []
                    if len(names) == 2:
                        # judged where the step was unpacked: in this function, or in the enclosing one (then at the definition of this closure)
                        dcx = s.ctx
                        use = n
                        if dcx is not cx:
                            c_ = cx
                            while c_ is not None and c_.parent is not dcx:
                                c_ = c_.parent
                            defs_ = [m_ for m_ in dcx.cfg.nodes if m_.kind == 'def' and c_ is not None and m_.ast is c_.f.node]
                            R.need(defs_, f'{qual}: cannot place the use of the unpacked trie step')
                            use = defs_[0]
                        inst2 = f'{dcx.qual} :: {names[0]}, {names[1]} = {norm(s.expr)[:50]}'
                        truthy_key = [t for (t, lab) in tests_on(dcx, names[0]) if not isinstance(t.ast, ast.Compare)]
                        good = [(t, lab) for nm_ in names for (t, lab) in tests_on(dcx, nm_) if isinstance(t.ast, ast.Compare) or nm_ == names[1]]
                        cx_, n_ = cx, n
                        cx, n = dcx, use
                        if truthy_key and not (good and n.id not in cx.cfg.reachable(removed_edges={(t.id, lab) for (t, lab) in good})):
                            R.fail('C04.MPT.2', inst2, cx.qual, truthy_key[0].ast, f'a match is decided by the truthiness of the matched key `{names[0]}`: the empty '
                                   'name is a legitimate key (a handler attached at `/`), so Interests whose longest matching prefix is `/` are dropped as unroutable',
                                   site(cx, truthy_key[0].ast))
                        elif not good or n.id in cx.cfg.reachable(removed_edges={(t.id, lab) for (t, lab) in good}):
                            R.fail('C04.MPT.2', inst2, cx.qual, s.node.ast, 'trie step used without testing that a prefix matched', site(cx, s.node.ast))
                        else:
                            R.ok('C04.MPT.2', inst2, site(cx_, c))
                        cx, n = cx_, n_
                else:
                    ok, why = False, f'handler node comes from {s.text()}'
            if not lookups and ok:
                raise AnalysisError(f'{qual}: cannot trace the receiver of {ast.unparse(c.func)}')
            for (s2, e2) in lookups:
                meth, tattr = e2.func.attr, e2.func.value.attr
                if meth != 'longest_prefix':
                    ok, why = False, f'lookup method is {meth}, not longest_prefix'
                elif tattr != trie:
                    ok, why = False, f'lookup is on self.{tattr}, handlers are attached to self.{trie}'
                else:
                    argsrc = s2.ctx.sources(s2.node, e2.args[0]) if e2.args else []
                    if not (argsrc and all(a.kind == 'param' and a.expr == pname for a in argsrc)):
                        ok, why = False, f'lookup key is {srcs_text(argsrc)}, not the Interest name parameter {pname!r}'
                # MPT.2: the `.value` read must be dominated by the truthy edge of a test of the step
                stepdef = s2.node
            inst = f'{qual} :: {ast.unparse(c.func)}'
            if ok:
                R.ok('C04.PRV.1', inst, site(cx, c), 'receiver <- step.value <- self.%s.longest_prefix(%s)' % (trie, pname))
            else:
                R.fail('C04.PRV.1', inst, cx.qual, c, 'handler is not selected by longest-prefix match on the Interest name: ' + why,
                       site(cx, c))
        # MPT.2 on the top-level function: every `.value` read of a step is behind a truthiness test of that step
        for cx in fam:
            for n in cx.cfg.nodes:
                for x in n.walk():
                    if isinstance(x, ast.Attribute) and x.attr == 'value' and isinstance(x.value, ast.Call) and isinstance(x.value.func, ast.Attribute) \
                            and self_attr(x.value.func.value, trie):
                        # `.value` taken straight from the lookup call: nothing can have tested the step
                        R.fail('C04.MPT.2', f'{cx.qual} :: {ast.unparse(x)[:60]}', cx.qual, x, 'trie step used without testing that a prefix matched', site(cx, x))
                    if isinstance(x, ast.Attribute) and x.attr == 'value' and isinstance(x.value, ast.Name):
                        srcs = cx.sources(n, x.value)
                        if not any(s.kind == 'expr' and isinstance(s.expr, ast.Call) and isinstance(s.expr.func, ast.Attribute)
                                   and self_attr(s.expr.func.value, trie) for s in srcs):
                            continue
                        ts = tests_on(cx, x.value.id)
                        removed = {(t.id, lab) for (t, lab) in ts}
                        inst = f'{cx.qual} :: {ast.unparse(x)}'
                        if n.id in cx.cfg.reachable(removed_edges=removed):
                            R.fail('C04.MPT.2', inst, cx.qual, x, 'trie step used without testing that a prefix matched', site(cx, x))
                        else:
                            R.ok('C04.MPT.2', inst, site(cx, x), f'{len(ts)} guarding test(s)')
        # LOP.1
        for cx in fam:
            nodes = [n for (c2, n, c) in cbs if c2 is cx]
            for n in nodes:
                after = reach_from_succ(cx.cfg, n)
                dup = [m for m in nodes if m.id in after]
                inst = f'{cx.qual} :: callback call line {n.lineno}'
                if dup:
                    R.fail('C04.LOP.1', inst, cx.qual, n.ast, 'a second handler invocation is reachable after this one', site(cx, n.ast))
                else:
                    R.ok('C04.LOP.1', inst, site(cx, n.ast))
            R.paths_examined += len(nodes)
    R.minimum('C04.PRV.1', 3)
    # ---------------------------------------------------------------- C04.ORD.2 still attached when finally called
    R.ob('C04.ORD.2', 'a handler found by the lookup is called only if it is still the one attached at that prefix when the call is made: the call '
                      'runs in a task after awaits (digest check, validator), so the entry is compared by identity with the table again right before it')
    for qual, trie in DISPATCH[:2]:
        fam = family(R, qual)
        for cx in fam:
            for (n, c) in calls_in_ctx(cx, attr='callback'):
                inst = f'{cx.qual} :: {norm(c)[:60]} only while attached'
                # identity tests `self.<trie>.get(<key>) is [not] <node>` in the function that makes the call
                recv = c.func.value
                idt = []
                for t in cx.cfg.nodes:
                    if t.kind == 'test' and isinstance(t.ast, ast.Compare) and len(t.ast.ops) == 1 and isinstance(t.ast.ops[0], (ast.Is, ast.IsNot)):
                        sides = [t.ast.left, t.ast.comparators[0]]
                        if any(ast.unparse(y) == ast.unparse(recv) for y in sides) and any(
                                any(isinstance(z, ast.Attribute) and self_attr(z, trie) for z in ast.walk(y)) for y in sides):
                            idt.append((t, isinstance(t.ast.ops[0], ast.Is)))
                # every path to the call takes the "is the attached one" edge, and no await lies between that test and the call
                guarded = bool(idt) and n.id not in cx.cfg.reachable(removed_edges={(t.id, lab) for (t, lab) in idt}, follow_exc=False)
                if guarded:
                    after = set()
                    for (t, lab) in idt:
                        after |= reach_from_succ(cx.cfg, t, lab, follow_exc=False)
                    between = [m for m in cx.cfg.nodes if m.id in after and m.has_await() and cx.cfg.path_exists(m, n) and m is not n]
                    guarded = not between
                if guarded:
                    R.ok('C04.ORD.2', inst, site(cx, c))
                else:
                    R.fail('C04.ORD.2', inst, cx.qual, c, 'the handler found before the awaits is called without checking that it is still attached: one that was detached while '
                           'the Interest was being validated receives it all the same (repro notes/repro/e22.py)', site(cx, c))
    R.minimum('C04.ORD.2', 2)
    R.minimum('C04.MPT.2', 3)

    # ---------------------------------------------------------------- C04.PRV.2
    R.ob('C04.PRV.2', 'every caller-supplied key handed to a prefix trie is Name.normalize(<argument>)')
    for qual, trie in KEYED:
        cx = ctx(R, qual)
        acc = trie_accesses(cx, trie)
        R.need(acc, f'{qual}: no access to self.{trie} found')
        for (n, kind, key) in acc:
            verdicts, txt = is_normalize_of_param(P, cx, n, key)
            inst = f'{qual} :: self.{trie} {kind} [{ast.unparse(key)}]'
            if verdicts and all(v == 'ok' for v in verdicts):
                R.ok('C04.PRV.2', inst, site(cx, key), 'key <- Name.normalize(param)')
            elif any(v in ('raw', 'wrong') for v in verdicts):
                R.fail('C04.PRV.2', inst, qual, n.ast if n.ast is not None else key,
                       f'trie key is not the normalised form of the argument (sources: {txt})', site(cx, key))
            else:
                raise AnalysisError(f'{qual}: cannot trace trie key {ast.unparse(key)} (sources {txt})')
    R.minimum('C04.PRV.2', 7)
    # NameTrie._path_from_key: every component mapped to a hashable, none dropped
    cx = ctx(R, 'ndn.name_tree.NameTrie._path_from_key')
    rets = returns(cx)
    R.need(rets, 'NameTrie._path_from_key has no return')
    pkey = cx.f.node.args.args[1].arg
    for rn in rets:
        e = rn.ast.value
        inst = 'ndn.name_tree.NameTrie._path_from_key :: ' + norm(rn.ast)[:80]
        if isinstance(e, ast.Call) and isinstance(e.func, ast.Name) and e.func.id in ('list', 'tuple') and e.args:
            e = e.args[0]
        if isinstance(e, ast.Name):
            e = loop_as_comprehension(cx.f.node, e.id) or e
        if isinstance(e, (ast.ListComp, ast.GeneratorExp)) and len(e.generators) == 1:
            g = e.generators[0]
            elt = e.elt
            var = ast.unparse(g.target)
            problems = []
            if g.ifs:
                problems.append('components are filtered')
            if ast.unparse(g.iter) != pkey:
                problems.append(f'iterates {ast.unparse(g.iter)} instead of the whole key')

            def hashable(x):
                if isinstance(x, ast.Call) and isinstance(x.func, ast.Name) and x.func.id == 'bytes' \
                        and len(x.args) == 1 and ast.unparse(x.args[0]) == var:
                    return True
                if isinstance(x, ast.IfExp):
                    t = ast.unparse(x.test)
                    # raw element allowed only under a read-only-memoryview (hashable) test
                    if ast.unparse(x.body) == var and 'readonly' in t and 'not' not in t.split() and hashable(x.orelse):
                        return True
                    if hashable(x.body) and hashable(x.orelse):
                        return True
                return False
            if not hashable(elt):
                problems.append(f'component mapped by `{ast.unparse(elt)}` is not guaranteed hashable/bytes-equal')
            if problems:
                R.fail('C04.PRV.2', inst, cx.qual, rn.ast, '; '.join(problems), site(cx, rn.ast))
            else:
                R.ok('C04.PRV.2', inst, site(cx, rn.ast), 'per-component bytes() / read-only memoryview, no filter')
        else:
            raise AnalysisError('NameTrie._path_from_key: unrecognised return shape ' + norm(rn.ast)[:80])
    # NameTrie must stay a pygtrie.Trie (longest_prefix semantics are the library's)
    R.need('pygtrie.Trie' in P.ext_bases(*NAMETRIE), 'NameTrie no longer derives from pygtrie.Trie')

    # ---------------------------------------------------------------- C04.ORD.1
    R.ob('C04.ORD.1', 'node.callback = handler is reachable only when the node returned by setdefault had no callback; '
                      'the occupied branch raises')
    for qual, trie in ATTACH:
        cx = ctx(R, qual)
        assigns = []
        for n in cx.cfg.nodes:
            if n.kind == 'stmt' and isinstance(n.ast, ast.Assign):
                for t in n.ast.targets:
                    if isinstance(t, ast.Attribute) and t.attr == 'callback':
                        assigns.append((n, t))
        R.need(assigns, f'{qual}: no assignment to <node>.callback')
        for (n, t) in assigns:
            txt = ast.unparse(t)
            inst = f'{qual} :: {norm(n.ast)}'
            srcs = cx.sources(n, t.value)
            from_setdefault = all(s.kind == 'expr' and isinstance(s.expr, ast.Call) and callee_attr(s.expr) == 'setdefault'
                                  and self_attr(s.expr.func.value, trie) for s in srcs) and srcs
            ts = tests_on(cx, txt)
            # remove the "free" edges; the assignment must become unreachable
            removed = {(tn.id, (not lab)) for (tn, lab) in ts}
            guarded = bool(ts) and n.id not in cx.cfg.reachable(removed_edges=removed)
            raises = True
            for (tn, lab) in ts:
                r = reach_from_succ(cx.cfg, tn, lab, follow_exc=False)
                if cx.cfg.exit.id in r or n.id in r:
                    raises = False
            if not from_setdefault:
                R.fail('C04.ORD.1', inst, qual, n.ast, f'callback stored on a node not obtained by setdefault on self.{trie} '
                       f'({srcs_text(srcs)})', site(cx, n.ast))
            elif not guarded:
                R.fail('C04.ORD.1', inst, qual, n.ast, 'handler is overwritten without checking that the prefix is unoccupied',
                       site(cx, n.ast))
            elif not raises:
                R.fail('C04.ORD.1', inst, qual, n.ast, 'occupied prefix does not lead to an exception', site(cx, n.ast))
            else:
                R.ok('C04.ORD.1', inst, site(cx, n.ast), 'guarded by test of %s, occupied edge raises' % txt)
    R.minimum('C04.ORD.1', 3)
    # ---------------------------------------------------------------- C04.PRV.3 who may enter a node in the dispatch table
    R.ob('C04.PRV.3', 'a node enters a dispatch table only together with a handler: every insertion is made by the attach function of that table '
                      '(a node without a handler is the longest-prefix match for every name beneath it and hides the handler attached at a shorter prefix)')
    for aq, trie in ATTACH:
        af = P.funcs[aq]
        n_ins = 0
        for q, f in sorted(P.funcs.items()):
            if (f.mod, f.cls) != (af.mod, af.cls):
                continue
            cx2 = ctx(R, q)
            for (n, kind, key) in trie_accesses(cx2, trie):
                if kind not in ('setdefault', 'set', '__setitem__'):
                    continue
                n_ins += 1
                inst = f'{af.mod}.{af.cls}.{trie} :: insertion in {q.rsplit(".", 1)[1]}'
                if q == aq or q.startswith(aq + '.<'):
                    R.ok('C04.PRV.3', inst, site(cx2, n.ast))
                else:
                    R.fail('C04.PRV.3', inst, q, n.ast, f'{q.rsplit(".", 1)[1]}() enters a node in self.{trie} without attaching a handler to it: dispatch takes '
                           'the node of the longest matching prefix, finds no callback there and drops the Interest, although a handler is attached at a '
                           'shorter prefix of the name', site(cx2, n.ast))
        R.need(n_ins >= 1, f'{aq}: no insertion into self.{trie} found')
    R.minimum('C04.PRV.3', 3)

    # ---------------------------------------------------------------- C04.SIB.1 detach deletes from the attach trie
    R.ob('C04.SIB.1', 'detach removes the key from the same trie that attach fills and dispatch reads')
    for qual, trie in DETACH:
        cx = ctx(R, qual)
        dels = [(n, k) for (n, kind, k) in trie_accesses(cx, trie) if kind in ('del', 'pop', '__delitem__')]
        inst = f'{qual} :: del self.{trie}[...]'
        if not dels:
            R.fail('C04.SIB.1', inst, qual, 'def ' + cx.f.node.name, f'no deletion from self.{trie} in the detach path',
                   site(cx, cx.f.node))
            continue
        # must happen on every normal path
        removed = {n.id for (n, _) in dels}
        if cx.cfg.exit.id in cx.cfg.reachable(removed_nodes=removed, follow_exc=False):
            R.fail('C04.SIB.1', inst, qual, dels[0][0].ast, 'a path returns normally without deleting the handler node',
                   site(cx, dels[0][0].ast))
        else:
            R.ok('C04.SIB.1', inst, site(cx, dels[0][0].ast))

    # ---------------------------------------------------------------- C04.MPT.1 / RET.1 (reply)
    R.ob('C04.MPT.1', 'reply: every send is reachable only through the not-yet-expired edge of the deadline test')
    R.ob('C04.RET.1', 'reply returns a bool on every path: truthy after a send, False when nothing was sent')
    cx = ctx(R, 'ndn.appv2.NDNApp._on_interest.<reply>')
    sends = [n for (n, c) in calls_in_ctx(cx, pred=lambda c: callee_attr(c) in (
        '_put_raw_packet', '_put_raw_packet_with_pit_token', '_put_raw_packet_with_pit_token_nocopy', 'send'))]
    R.need(sends, 'reply: no send call found')
    ok_edges = []
    for n in cx.cfg.nodes:
        if n.kind == 'test' and isinstance(n.ast, ast.Compare) and len(n.ast.ops) == 1:
            l, r_, op = n.ast.left, n.ast.comparators[0], n.ast.ops[0]

            def kind(e):
                ss = cx.sources(n, e)
                ks = set()
                for s in ss:
                    if s.kind == 'expr' and isinstance(s.expr, ast.Call) and callee_attr(s.expr) in ('timestamp', 'time', 'monotonic'):
                        ks.add('now')
                    elif s.kind == 'expr' and isinstance(s.expr, ast.BinOp) and isinstance(s.expr.op, ast.Add) and any(
                            isinstance(c, ast.Call) and callee_attr(c) in ('timestamp', 'time', 'monotonic')
                            for c in ast.walk(s.expr)):
                        ks.add('deadline')
                    else:
                        ks.add('other')
                return ks
            kl, kr = kind(l), kind(r_)
            if kl == {'now'} and kr == {'deadline'}:
                ok = {ast.Gt: False, ast.GtE: False, ast.Lt: True, ast.LtE: True}.get(type(op))
            elif kl == {'deadline'} and kr == {'now'}:
                ok = {ast.Gt: True, ast.GtE: True, ast.Lt: False, ast.LtE: False}.get(type(op))
            else:
                continue
            if ok is not None:
                ok_edges.append((n, ok))
    inst = cx.qual + ' :: sends vs deadline test'
    if not ok_edges:
        R.fail('C04.MPT.1', inst, cx.qual, sends[0].ast, 'no comparison of the current time with the Interest deadline guards the send',
               site(cx, sends[0].ast))
    else:
        removed = {(t.id, lab) for (t, lab) in ok_edges}
        reach = cx.cfg.reachable(removed_edges=removed)
        bad = [s for s in sends if s.id in reach]
        R.paths_examined += len(sends)
        if bad:
            R.fail('C04.MPT.1', inst, cx.qual, bad[0].ast, 'a reply is transmitted on a path where the deadline has passed '
                   f'(test: {norm(ok_edges[0][0].ast)})', site(cx, bad[0].ast))
        else:
            R.ok('C04.MPT.1', inst, site(cx, ok_edges[0][0].ast), f'{len(sends)} send(s) behind `{norm(ok_edges[0][0].ast)}`')
    # RET.1
    inst = cx.qual + ' :: return values'
    problems = []
    if cx.cfg.falloff.id in cx.cfg.reachable(follow_exc=False):
        # which kind of path falls off?
        after_send = set()
        for s in sends:
            after_send |= reach_from_succ(cx.cfg, s, follow_exc=False)
        problems.append(('falls off the end (returns None) ' + ('after a send' if cx.cfg.falloff.id in after_send else 'without sending'),
                         'def reply'))
    nosend = cx.cfg.reachable(removed_nodes={s.id for s in sends}, follow_exc=False)
    after = set()
    for s in sends:
        after |= reach_from_succ(cx.cfg, s, follow_exc=False)
    for rn in returns(cx):
        v = const_bool(rn.ast.value)
        if v == 'none':
            problems.append(('returns None', rn.ast))
        elif v is None:
            raise AnalysisError(f'reply: non-constant return value {norm(rn.ast)}')
        else:
            if rn.id in after and v is False:
                problems.append(('reports failure although the packet was sent', rn.ast))
            if rn.id in nosend and v is True:
                problems.append(('reports success on a path that sent nothing', rn.ast))
    if problems:
        for (what, construct) in problems:
            R.fail('C04.RET.1', inst, cx.qual, construct, 'reply ' + what, site(cx, construct if not isinstance(construct, str) else cx.f.node))
    else:
        R.ok('C04.RET.1', inst, site(cx, cx.f.node), f'{len(returns(cx))} return(s), no fall-through')
    # the helpers reply() counts as "sent" really hand the packet to the face whenever they return normally
    for s_ in sends:
        for c in s_.calls():
            if callee_attr(c) not in ('_put_raw_packet', '_put_raw_packet_with_pit_token', '_put_raw_packet_with_pit_token_nocopy'):
                continue
            hq = resolve_call(P, cx, c) or f'ndn.appv2.NDNApp.{callee_attr(c)}'
            h = ctx(R, hq)
            inst = f'{hq} :: returns normally only after face.send'
            fs = [n for (n, c2) in calls_in_ctx(h, attr='send') if ast.unparse(c2.func.value).endswith('face')]
            if not fs:
                R.fail('C04.RET.1', inst, hq, 'def ' + h.f.node.name, 'the helper never hands the packet to the face', site(h, h.f.node))
                continue
            r = h.cfg.reachable(removed_nodes={n.id for n in fs}, follow_exc=False)
            silent = [n for n in returns(h) if n.id in r] + ([h.cfg.falloff] if h.cfg.falloff.id in r else [])
            if silent:
                n0 = silent[0]
                R.fail('C04.RET.1', inst, hq, n0.ast if n0.ast is not None else 'def ' + h.f.node.name, 'the helper can return without sending (e.g. face down) and '
                       'without raising: reply() then reports True although nothing was transmitted', site(h, n0.ast if n0.ast is not None else h.f.node))
            else:
                R.ok('C04.RET.1', inst, site(h, fs[0].ast), 'every normal exit follows face.send; otherwise NetworkError')
    # ---------------------------------------------------------------- C04.NUL.1 lifetime 0 is a lifetime, not "absent"
    R.ob('C04.NUL.1', 'the Interest lifetime (optional integer) is tested with `is None`, never by truthiness, when the reply deadline is computed')
    n_uses = 0
    for cxx in family(R, 'ndn.appv2.NDNApp._on_interest') + family(R, 'ndn.encoding.ndn_format_0_3.parse_interest'):
        for (e, d) in int_truthiness_uses(P, cxx):
            if 'lifetime' not in d:
                continue
            n_uses += 1
            R.fail('C04.NUL.1', f'{cxx.qual} :: {norm(e)[:80]}', cxx.qual, e, f'{d} is tested by truthiness: an InterestLifetime of 0 is '
                   'treated as absent and the default deadline is used', site(cxx, e))
    top = family(R, 'ndn.appv2.NDNApp._on_interest')[0]
    lt = [n for n in top.cfg.nodes if n.kind == 'test' and 'lifetime' in ast.unparse(n.ast)]
    if not n_uses:
        R.ok('C04.NUL.1', 'ndn.appv2.NDNApp._on_interest :: lifetime presence tests', site(top, lt[0].ast) if lt else '',
             f'{len(lt)} test(s) on the lifetime, none by truthiness')
    R.assumptions += ['pygtrie.Trie.longest_prefix returns the longest stored prefix and a falsy step when none matches',
                      'user handlers do not re-enter the dispatch']
