"""C13 — ill-formed schemas / models rejected; accepted models terminate (DESIGN §4 C13)."""
import ast

from .common import memo_rule, ctx, returns, calls_in_ctx, site, reach_from_succ, truthy_label, full_text, inline_ast
from .lvs import CK, CP, docs_sanity_bullets, raising_edge, cmp_sides
from ..flow import callee_attr
from ..loader import AnalysisError, norm

LME = CK + '.LvsModelError'
SE = CP + '.SemanticError'


def _root_parent_without_dfs(R, sc):
    """C13.LOP.2 on a non-recursive loader: is there any comparison of a node's parent link whose other side can be None (the expectation for the
    start node)? Sides are followed through locals, through the elements of work lists (`pending = [x]; pending.append(y); z = pending.pop()`) and
    through tuple elements. -> a violation when no parent comparison can ever expect None; otherwise nothing is claimed here."""
    P = R.P
    R.ob('C13.LOP.2', 'queries terminate: backtracking leaves the tree only at the start node, whose parent link the loader forces to be absent '
                      '(or the matcher stops at start_id)')
    mt = ctx(R, CK + '.Checker._match')
    if any(t.kind == 'test' and 'start_id' in ast.unparse(t.ast) for t in mt.cfg.nodes):
        return
    from ..flow import nested_funcs
    fam = [sc] + [ctx(R, q) for q in nested_funcs(P, sc.qual)]

    def lists_elems(name):
        """expressions put into the work list `name` anywhere in the family: display elements of its bindings and append / extend arguments"""
        out = []
        for cx in fam:
            for x in ast.walk(cx.f.node):
                if isinstance(x, ast.Assign) and any(isinstance(t_, ast.Name) and t_.id == name for t_ in x.targets) and isinstance(x.value, (ast.List, ast.Tuple)):
                    nd = next((n_ for n_ in cx.cfg.nodes if n_.ast is x), None)
                    out += [(cx, nd, e_) for e_ in x.value.elts]
                if isinstance(x, ast.Call) and isinstance(x.func, ast.Attribute) and x.func.attr in ('append', 'appendleft', 'extend') \
                        and isinstance(x.func.value, ast.Name) and x.func.value.id == name and x.args:
                    nd = next((n_ for n_ in cx.cfg.nodes if any(c_ is x for c_ in n_.calls())), None)
                    out.append((cx, nd, x.args[0]))
        return out

    def may_be_none(cx, node, e, depth=0, index=None):
        """True / False / None (unknown)"""
        if depth > 6:
            return None
        if isinstance(e, ast.Constant):
            return e.value is None
        if isinstance(e, (ast.Tuple, ast.List)) and index is not None and index < len(e.elts):
            return may_be_none(cx, node, e.elts[index], depth + 1)
        if isinstance(e, ast.Call) and isinstance(e.func, ast.Attribute) and e.func.attr in ('pop', 'popleft') and isinstance(e.func.value, ast.Name):
            # (an element whose statement is not in the flow graph stands in a helper that was expanded in place: its copy is judged where it now stands)
            vs = [may_be_none(c2, nd, el, depth + 1, index) for (c2, nd, el) in lists_elems(e.func.value.id) if nd is not None]
            if not vs:
                return None
            return True if any(v is True for v in vs) else (False if all(v is False for v in vs) else None)
        if isinstance(e, ast.Attribute):
            return False if e.attr in ('start_id', 'id', 'dest') else None      # node ids
        if isinstance(e, ast.Name) and node is not None:
            vs = []
            for s_ in cx.sources(node, e):
                if s_.kind == 'expr':
                    vs.append(may_be_none(s_.ctx, s_.node, s_.expr, depth + 1, index))
                elif s_.kind == 'unpack':
                    vs.append(may_be_none(s_.ctx, s_.node, s_.expr, depth + 1, s_.extra))
                elif s_.kind == 'param':
                    # a parameter of a nested helper: what its callers pass
                    pos = [a_.arg for a_ in s_.ctx.f.node.args.args].index(s_.expr) if s_.expr in [a_.arg for a_ in s_.ctx.f.node.args.args] else None
                    calls = [(c2, n2, c_) for c2 in fam for n2 in c2.cfg.nodes for c_ in n2.calls()
                             if isinstance(c_.func, ast.Name) and c_.func.id == s_.ctx.f.node.name and pos is not None and pos < len(c_.args)]
                    vs += [may_be_none(c2, n2, c_.args[pos], depth + 1) for (c2, n2, c_) in calls] or [None]
                else:
                    vs.append(None)
            if not vs:
                return None
            return True if any(v is True for v in vs) else (False if all(v is False for v in vs) else None)
        return None
    verdicts = []
    for cx in fam:
        for t in cx.cfg.nodes:
            if t.kind == 'test' and isinstance(t.ast, ast.Compare) and len(t.ast.ops) == 1:
                sides = [t.ast.left, t.ast.comparators[0]]
                ps = [x for x in sides if isinstance(x, ast.Attribute) and x.attr == 'parent']
                if len(ps) == 1:
                    other = sides[1] if sides[0] is ps[0] else sides[0]
                    verdicts.append((cx, t, may_be_none(cx, t, other)))
    inst = sc.qual + ' :: some parent comparison can expect "no parent" (the start node)'
    if verdicts and all(v is False for (_c, _t, v) in verdicts):
        cx, t, _ = verdicts[0]
        R.fail('C13.LOP.2', inst, sc.qual, t.ast, f'every comparison of a parent link (`{norm(t.ast)}` ..) expects a node id, never "absent": the parent link of the start '
               'node is not checked, a model whose start node names a parent is accepted, and the matcher - which leaves its loop only by stepping from the start '
               'node to "no parent" - never terminates on it', site(cx, t.ast))
    elif verdicts and any(v is True for (_c, _t, v) in verdicts):
        R.ok('C13.LOP.2', inst, site(verdicts[0][0], verdicts[0][1].ast), 'a parent comparison can expect None')


def run(R):
    memo_rule(R, 'C13.MEM.1', ('ndn.app_support.light_versec.compiler', 'ndn.app_support.light_versec.parser', 'ndn.app_support.light_versec.checker'), 'the compiler rewrites the parse tree in place (pattern names become numbers, '
              'constraint targets become lists), so a parse result handed out twice compiles differently - or not at all - the second time')
    P = R.P
    bullets = docs_sanity_bullets(P)
    R.extra['documented_sanity_rules'] = bullets
    if len(bullets) != 6:
        raise AnalysisError(f'docs list {len(bullets)} mandatory sanity rules; the checker maps exactly 6 (a new bullet needs a mapped guard)')
    sc = ctx(R, CK + '.Checker._sanity_check')
    if (CK + '.Checker._sanity_check.<dfs>') not in P.funcs:
        # the recursive walk is gone (an explicit stack, a method ..): every rule below is anchored in it and cannot be read. One necessary
        # condition is still decided on whatever stands there now: termination of the matcher needs the *start node's* parent link to be forced
        # absent (or the matcher to stop at start_id)
        _root_parent_without_dfs(R, sc)
    df = ctx(R, CK + '.Checker._sanity_check.<dfs>')
    R.ob('C13.GRD.1', 'each documented sanity rule of the binary model has a raising guard in _sanity_check, run by Checker(...) and load()')
    cur, par = [a.arg for a in df.f.node.args.args][:2]

    _ti = {}

    def TI(cx, t):
        """the test with single-definition locals (also those of the enclosing function) replaced by their definitions"""
        k = (cx.qual, t.id)
        if k not in _ti:
            _ti[k] = inline_ast(cx, t.ast)
        return _ti[k]

    NN = 'len(self.model.nodes)'

    def p_bound(var):
        def pred(t):
            c = cmp_sides(t)
            if not c:
                return None
            l, op, r = c
            if l == NN:
                l, op, r = r, FLIP.get(op), l
            if (l, r) != (var, NN):
                return None
            return {ast.GtE: True, ast.Lt: False}.get(op)
        return pred

    def guard(cx, oid, bullet, pred, what):
        hits = []
        for t in cx.cfg.nodes:
            if t.kind == 'test':
                lab = pred(TI(cx, t))
                if lab is not None:
                    hits.append((t, lab))
        inst = f'{cx.qual} :: {bullet[:70]}'
        if not hits:
            R.fail(oid, inst, cx.qual, 'def ' + cx.f.node.name, f'no guard for the documented rule "{bullet}" ({what})', site(cx, cx.f.node))
            return
        bad = [t for (t, lab) in hits if not raising_edge(cx, t, lab, LME, P)]
        if bad:
            R.fail(oid, inst, cx.qual, bad[0].ast, f'the guard `{norm(bad[0].ast)}` does not raise LvsModelError on violation', site(cx, bad[0].ast))
        else:
            R.ok(oid, inst, site(cx, hits[0][0].ast), f'`{norm(hits[0][0].ast)}` raises')

    FLIP = {ast.Lt: ast.Gt, ast.Gt: ast.Lt, ast.LtE: ast.GtE, ast.GtE: ast.LtE, ast.Eq: ast.Eq, ast.NotEq: ast.NotEq}
    VER, VMIN, VMAX = 'self.model.version', 'bny.MIN_SUPPORTED_VERSION', 'bny.VERSION'
    bounds_seen = set()

    def p_version(t):
        """label of the edge on which the version is unsupported; records which bounds are compared"""
        s = ast.unparse(t)
        if VER not in s:
            return None
        if s == VER + ' is None':
            return True
        if s == VER + ' is not None':
            return False
        if isinstance(t, ast.Compare) and len(t.ops) == 2 and ast.unparse(t.comparators[0]) == VER and \
                all(isinstance(o, ast.LtE) for o in t.ops) and ast.unparse(t.left) == VMIN and ast.unparse(t.comparators[1]) == VMAX:
            bounds_seen.update((VMIN, VMAX))
            return False
        c = cmp_sides(t)
        if c:
            l, op, r = c
            if r == VER:
                l, op, r = r, FLIP.get(op), l
            if l == VER and (r, op) in ((VMIN, ast.Lt), (VMAX, ast.Gt)):
                bounds_seen.add(r)
                return True
            if l == VER and (r, op) in ((VMIN, ast.GtE), (VMAX, ast.LtE)):
                bounds_seen.add(r)
                return False
        raise AnalysisError(f'{sc.qual}: unrecognised test of the model version `{s}`')
    guard(sc, 'C13.GRD.1', bullets[0], p_version, 'version range')
    if bounds_seen != {VMIN, VMAX}:
        R.fail('C13.GRD.1', f'{sc.qual} :: version within [MIN_SUPPORTED_VERSION, VERSION]', sc.qual, 'def _sanity_check',
               'the model version is not checked against both the oldest and the newest supported version', site(sc, sc.f.node))
    NID = f'self.model.nodes[{cur}].id'
    NPAR = f'self.model.nodes[{cur}].parent'
    guard(df, 'C13.GRD.1', bullets[1], lambda t: {(NID, ast.NotEq, cur): True, (cur, ast.NotEq, NID): True,
                                               (NID, ast.Eq, cur): False, (cur, ast.Eq, NID): False}.get(cmp_sides(t) or ()), 'node.id != index')
    guard(df, 'C13.GRD.1', bullets[2], p_bound(cur), 'destination >= number of nodes')
    guard(df, 'C13.GRD.1', bullets[3], p_bound('key_node_id'), 'signer id >= number of nodes')
    def arity_parts(t):
        """the boolean terms whose number of true ones the (inlined) test t compares with 1 - `[a, b, c].count(True)`, `a + b + c`
        or `sum([a, b, c])` - else None"""
        if not (isinstance(t, ast.Compare) and len(t.ops) == 1 and isinstance(t.ops[0], (ast.Eq, ast.NotEq))):
            return None
        sides = [t.left, t.comparators[0]]
        one = [x for x in sides if isinstance(x, ast.Constant) and x.value == 1]
        oth = [x for x in sides if x not in one]
        if len(one) != 1 or len(oth) != 1:
            return None
        e = oth[0]
        if isinstance(e, ast.Call) and callee_attr(e) == 'count' and isinstance(e.func.value, (ast.List, ast.Tuple)) and len(e.args) == 1 \
                and ast.unparse(e.args[0]) == 'True':
            return list(e.func.value.elts)
        if isinstance(e, ast.Call) and ast.unparse(e.func) == 'sum' and len(e.args) == 1 and isinstance(e.args[0], (ast.List, ast.Tuple)):
            return list(e.args[0].elts)
        if isinstance(e, ast.BinOp) and isinstance(e.op, ast.Add):
            parts = []

            def flat(x):
                if isinstance(x, ast.BinOp) and isinstance(x.op, ast.Add):
                    flat(x.left)
                    flat(x.right)
                else:
                    parts.append(x)
            flat(e)
            return parts
        return None
    guard(df, 'C13.GRD.1', bullets[4], lambda t: (isinstance(t.ops[0], ast.NotEq) if arity_parts(t) is not None else None), 'option arity')
    guard(df, 'C13.GRD.1', bullets[5], lambda t: {(NPAR, ast.NotEq, par): True, (par, ast.NotEq, NPAR): True}.get(cmp_sides(t) or ()), 'parent link')
    # the unconditional guards lie on every path into the walk; the parent guard may be skipped only for the start node (par is None)
    loops0 = [n for n in df.cfg.nodes if n.kind == 'for']
    if loops0:
        work = min(loops0, key=lambda n: n.id)
        for (label, pred, skips) in (('destination exists', lambda t: p_bound(cur)(t) is not None, set()),
                                     ('node id == index', lambda t: cmp_sides(t) in ((NID, ast.NotEq, cur), (cur, ast.NotEq, NID), (NID, ast.Eq, cur), (cur, ast.Eq, NID)), set()),
                                     ('parent link', lambda t: cmp_sides(t) in ((NPAR, ast.NotEq, par), (par, ast.NotEq, NPAR)),
                                      {(t.id, truthy_label(t.ast, par) is False) for t in df.cfg.nodes if t.kind == 'test' and truthy_label(t.ast, par) is not None
                                       and ast.unparse(t.ast) != par})):
            ts = [t for t in df.cfg.nodes if t.kind == 'test' and pred(TI(df, t))]
            inst = f'{df.qual} :: guard "{label}" cannot be bypassed'
            if ts and work.id in df.cfg.reachable(removed_nodes={t.id for t in ts}, removed_edges=skips, follow_exc=False):
                R.fail('C13.GRD.1', inst, df.qual, ts[0].stmt if isinstance(ts[0].stmt, ast.If) else ts[0].ast,
                       f'the check "{label}" is skipped on some path (it is conditional on more than the documented rule allows, e.g. an absent field)', site(df, ts[0].ast))
            elif ts:
                R.ok('C13.GRD.1', inst, site(df, ts[0].ast))
    # the arity count really counts the three alternatives
    br = [(t, e) for (t, e) in ((t, arity_parts(TI(df, t))) for t in df.cfg.nodes if t.kind == 'test') if e is not None]
    inst = df.qual + ' :: option arity counts value / tag / fn'
    okb = False
    if len(br) == 1:
        parts = sorted(ast.unparse(e) for e in br[0][1])
        # each term is a genuine boolean: presence of the tag / function, non-emptiness of the value
        okb = len(parts) == 3 and 'op.tag is not None' in parts and 'op.fn is not None' in parts and \
            any(p in ('not not op.value', 'bool(op.value)', "op.value != b''", 'len(op.value) > 0', 'len(op.value) != 0') for p in parts)
    br = [t.ast for (t, e) in br]
    if okb:
        R.ok('C13.GRD.1', inst, site(df, br[0]))
    else:
        R.fail('C13.GRD.1', inst, df.qual, br[0] if br else 'def dfs', 'the number of alternatives set in a constraint option is not counted over Value, Tag and UserFn', site(df, df.f.node))
    # edges: absent destination refused; recursion passes (dest, cur)
    for ev in ('ve', 'pe'):
        guard(df, 'C13.GRD.1', f'{ev} edge destination present', lambda t, ev=ev: True if ast.unparse(t) == f'{ev}.dest is None' else None, 'edge without destination')
    rec = [c for (n, c) in calls_in_ctx(df) if isinstance(c.func, ast.Name) and c.func.id == 'dfs']
    inst = df.qual + ' :: recursion over both edge kinds with the current node as parent'
    got = sorted(tuple(ast.unparse(a) for a in c.args) for c in rec)
    if got == [('pe.dest', cur), ('ve.dest', cur)]:
        R.ok('C13.GRD.1', inst, site(df, rec[0]))
    else:
        R.fail('C13.GRD.1', inst, df.qual, rec[0] if rec else 'def dfs', f'children are visited as {got}', site(df, df.f.node))
    top = [c for (n, c) in calls_in_ctx(sc) if isinstance(c.func, ast.Name) and c.func.id == 'dfs']
    inst = sc.qual + ' :: walk starts at the start node without parent'
    if len(top) == 1 and [ast.unparse(a) for a in top[0].args] == ['self.model.start_id', 'None']:
        R.ok('C13.GRD.1', inst, site(sc, top[0]))
    else:
        R.fail('C13.GRD.1', inst, sc.qual, top[0] if top else 'def _sanity_check', 'the tree walk does not start at start_id', site(sc, sc.f.node))
    ini = ctx(R, CK + '.Checker.__init__')
    ld = ctx(R, CK + '.Checker.load')
    inst = CK + '.Checker :: sanity check runs on construction and on load'
    if calls_in_ctx(ini, attr='_sanity_check') and ini.cfg.exit.id not in ini.cfg.reachable(removed_nodes={n.id for (n, c) in calls_in_ctx(ini, attr='_sanity_check')}, follow_exc=False) \
            and all(isinstance(r.ast.value, ast.Call) and ast.unparse(r.ast.value.func) == 'Checker' for r in returns(ld)):
        R.ok('C13.GRD.1', inst, site(ini, ini.f.node))
    else:
        R.fail('C13.GRD.1', inst, ini.qual, 'def __init__', 'a checker can be built without the sanity check', site(ini, ini.f.node))
    # ------------------------------------------------------------------ LOP.2 backtracking ends at the start node
    R.ob('C13.LOP.2', 'queries terminate: backtracking leaves the tree only at the start node, whose parent link the loader forces to be absent '
                      '(or the matcher stops at start_id)')
    mt = ctx(R, CK + '.Checker._match')
    back = [n for n in mt.cfg.nodes if n.kind == 'stmt' and isinstance(n.ast, ast.Assign) and ast.unparse(n.ast.targets[0]) == 'cur' and ast.unparse(n.ast.value) == 'node.parent']
    stops_at_start = any(t.kind == 'test' and 'start_id' in ast.unparse(t.ast) for t in mt.cfg.nodes)
    cmp_t = [t for t in df.cfg.nodes if t.kind == 'test' and cmp_sides(TI(df, t)) in ((NPAR, ast.NotEq, par), (par, ast.NotEq, NPAR))]
    none_skip = {(t.id, truthy_label(t.ast, par)) for t in df.cfg.nodes if t.kind == 'test' and truthy_label(t.ast, par) is not None}
    root_t = [t for t in df.cfg.nodes if t.kind == 'test' and ast.unparse(t.ast) in ('node.parent is not None', 'node.parent is None')]
    inst = mt.qual + ' :: exit of the backtracking loop'
    if not back:
        raise AnalysisError('_match: backtracking step `cur = node.parent` not found')
    root_checked = bool(cmp_t) and any(t.id in df.cfg.reachable(removed_edges=none_skip) for t in cmp_t)
    if stops_at_start or root_checked:
        R.ok('C13.LOP.2', inst, site(df, cmp_t[0].ast) if cmp_t else site(mt, back[0].ast), 'start node parent is compared with None' if root_checked else 'matcher stops at start_id')
    else:
        R.fail('C13.LOP.2', inst, df.qual, cmp_t[0].stmt if cmp_t and isinstance(cmp_t[0].stmt, ast.If) else 'def dfs',
               'the parent link of the start node is never checked (the comparison is skipped when there is no expected parent): a model whose '
               'start node names a parent is accepted and every non-matching query then backtracks forever', site(df, df.f.node))
    # ------------------------------------------------------------------ GRD.2 integer ids never by truthiness
    R.ob('C13.GRD.2', 'integer ids (node id, parent, destination, tag: 0 is a legal value) are tested with `is None`, never by truthiness')
    INTS = {par, cur, 've.dest', 'pe.dest', 'pe.tag', 'op.tag', 'node.parent', 'node.id', 'key_node_id'}
    n_t = 0
    for t in df.cfg.nodes:
        if t.kind == 'test' and ast.unparse(t.ast) in INTS:
            n_t += 1
            R.fail('C13.GRD.2', f'{df.qual} :: truthiness of {ast.unparse(t.ast)}', df.qual, t.stmt if isinstance(t.stmt, ast.If) else t.ast,
                   f'`{ast.unparse(t.ast)}` is an integer id tested by truthiness: the check is skipped when it is 0 '
                   '(children of node 0 are not checked for their parent link; a cycle through such a child is accepted)', site(df, t.ast))
    nones = [t for t in df.cfg.nodes if t.kind == 'test' and isinstance(t.ast, ast.Compare) and isinstance(t.ast.comparators[0], ast.Constant)
             and t.ast.comparators[0].value is None and ast.unparse(t.ast.left) in INTS]
    if not n_t:
        R.ok('C13.GRD.2', df.qual + ' :: id presence tests', site(df, df.f.node), f'{len(nones)} `is None` tests, no truthiness test on an id')
    # ------------------------------------------------------------------ GRD.3 compile-time errors
    R.ob('C13.GRD.3', 'schema errors are detected: undefined rule, temporary rule referenced, reference cycle, signing cycle, unknown pattern '
                      'in a constraint, temporary pattern as constraint value or function argument, unknown signer')
    sr = ctx(R, CP + '.Compiler._sort_rule_references')
    gpn = ctx(R, CP + '.Compiler._gen_pattern_numbers')
    to = ctx(R, CP + '.top_order')

    def guard2(cx, label, pred, exc=SE):
        def rd(c_, t_):
            # the test with single-definition locals read through (`ids = d.get(k); if ids is None` is `d.get(k) is None`)
            try:
                return inline_ast(c_, t_.ast)
            except Exception:
                return t_.ast
        _p0 = pred
        pred = lambda e, _p0=_p0: _p0(e)     # noqa: E731
        hits = [(t, pred(t.ast) if pred(t.ast) is not None else pred(rd(cx, t))) for t in cx.cfg.nodes if t.kind == 'test']
        hits = [(t, l) for (t, l) in hits if l is not None]
        inst = f'{cx.qual} :: {label}'
        if not hits:
            # the check may stand in a new helper that could not be expanded in place (called inside a comprehension / generator)
            from .common import new_callees
            for c2 in new_callees(R, cx):
                h2 = [(t, pred(t.ast) if pred(t.ast) is not None else pred(rd(c2, t))) for t in c2.cfg.nodes if t.kind == 'test']
                h2 = [(t, l) for (t, l) in h2 if l is not None]
                if h2:
                    cx, hits = c2, h2
                    break
        if not hits:
            R.fail('C13.GRD.3', inst, cx.qual, 'def ' + cx.f.node.name, f'no check for "{label}"', site(cx, cx.f.node))
        else:
            bad = [t for (t, lab) in hits if not raising_edge(cx, t, lab, exc, P)]
            if bad:
                R.fail('C13.GRD.3', inst, cx.qual, bad[0].ast, f'`{norm(bad[0].ast)}` does not raise the schema error', site(cx, bad[0].ast))
            else:
                R.ok('C13.GRD.3', inst, site(cx, hits[0][0].ast))
    # temporary rules are made unreferable: every rule whose identifier starts with `#_` is renamed with a unique suffix
    ren = [n for n in sr.cfg.nodes if n.kind == 'stmt' and isinstance(n.ast, ast.AugAssign) and ast.unparse(n.ast.target) == 'rule.id.id']
    inst = sr.qual + ' :: temporary rules are renamed (cannot be referred to as signers)'
    rt = [t for t in sr.cfg.nodes if t.kind == 'test' and 'rule.id.id' in ast.unparse(t.ast)
          and not (isinstance(t.ast, ast.Compare) and isinstance(t.ast.ops[0], (ast.In, ast.NotIn)))]       # tests on the identifier itself, not membership tests
    okr = len(ren) == 1 and len(rt) == 1 and ast.unparse(rt[0].ast) in ("rule.id.id[1] == '_'", "rule.id.id.startswith('#_')", "rule.id.id[:2] == '#_'") \
        and ren[0].id not in sr.cfg.reachable(removed_edges={(rt[0].id, True)})
    if okr:
        R.ok('C13.GRD.3', inst, site(sr, ren[0].ast))
    elif len(rt) == 1 and isinstance(rt[0].ast, ast.Compare) and ast.unparse(rt[0].ast.left) == 'rule.id.id' and isinstance(rt[0].ast.ops[0], ast.Eq):
        R.fail('C13.GRD.3', inst, sr.qual, rt[0].ast, f'only the rule literally named {ast.unparse(rt[0].ast.comparators[0])} is renamed: a named temporary rule keeps its '
               'identifier and can be referred to as a signer', site(sr, rt[0].ast))
    elif not ren:
        R.fail('C13.GRD.3', inst, sr.qual, 'def _sort_rule_references', 'temporary rules are not renamed: they can be referred to as signers', site(sr, sr.f.node))
    else:
        raise AnalysisError(f'{sr.qual}: unrecognised temporary-rule test `{norm(rt[0].ast) if rt else None}`')
    guard2(sr, 'reference to an undefined rule', lambda t: True if ast.unparse(t) == 'c.id not in rule_id_set' else None)
    guard2(sr, 'reference to a temporary rule', lambda t: True if ast.unparse(t) == "c.id[1] == '_'" else None)
    # roles in top_order(nodes, graph): result list = the list whose length the while test compares with len(nodes); round = the list iterated by the
    # loop that appends to the result
    to_args = [a.arg for a in to.f.node.args.args]
    if len(to_args) != 2:
        raise AnalysisError(f'{to.qual}: expected top_order(nodes, graph)')
    t_nodes = to_args[0]
    wh = [n for n in to.cfg.nodes if n.kind == 'test' and isinstance(n.ast, ast.Compare) and len(n.ast.ops) == 1 and isinstance(n.ast.ops[0], ast.Lt)
          and ast.unparse(n.ast.comparators[0]) == f'len({t_nodes})' and isinstance(n.ast.left, ast.Call) and ast.unparse(n.ast.left.func) == 'len'
          and len(n.ast.left.args) == 1 and isinstance(n.ast.left.args[0], ast.Name)]
    t_ret = wh[0].ast.left.args[0].id if len(wh) == 1 else None
    apps = [n for (n, c) in calls_in_ctx(to, attr='append') if t_ret and ast.unparse(c.func.value) == t_ret]
    loops = [n for n in to.cfg.nodes if n.kind == 'for' and isinstance(n.ast.iter, ast.Name) and isinstance(n.ast.target, ast.Name)
             and any(a.ast is x for a in apps for x in ast.walk(n.ast))]
    t_round = loops[0].ast.iter.id if len(loops) == 1 else None
    guard2(to, 'dangling identifier in a reference graph',
           lambda t: True if isinstance(t, ast.Compare) and len(t.ops) == 1 and isinstance(t.ops[0], ast.NotIn) and isinstance(t.left, ast.Name)
           and ast.unparse(t.comparators[0]) == t_nodes else None)
    def empty_round(t):
        """label of the edge on which the round is empty"""
        if not t_round:
            return None
        if isinstance(t, ast.Name) and t.id == t_round:
            return False
        c = cmp_sides(t)
        if c and c[0] == f'len({t_round})' and c[2] == '0':
            return {ast.Eq: True, ast.NotEq: False, ast.Gt: False, ast.LtE: True}.get(c[1])
        if c and c[0] == f'len({t_round})' and c[2] == '1':
            return {ast.Lt: True, ast.GtE: False}.get(c[1])
        if c and c[0] == t_round and c[2] == '[]':
            return {ast.Eq: True, ast.NotEq: False}.get(c[1])
        return None
    guard2(to, 'cycle in a reference graph', empty_round)
    guard2(gpn, 'temporary pattern as constraint value', lambda t: False if ast.unparse(t) == "op.id[0] != '_'" else (True if ast.unparse(t) == "op.id[0] == '_'" else None))
    guard2(gpn, 'temporary pattern as function argument', lambda t: False if ast.unparse(t) == "arg.id[0] != '_'" else (True if ast.unparse(t) == "arg.id[0] == '_'" else None))
    # unknown pattern: lookups of named_pats / temp_pats inside try whose KeyError/IndexError handler raises SemanticError
    inst = gpn.qual + ' :: pattern that occurs nowhere'
    hs = [h for h in gpn.cfg.nodes if h.kind == 'handler' and P.caught_by('KeyError', P.handler_names(gpn.f.mod, h.ast))]
    lookups = [n for n in gpn.cfg.nodes if any(isinstance(x, ast.Subscript) and ast.unparse(x.value) in ('self.named_pats', 'temp_pats') and isinstance(x.ctx, ast.Load)
                                               for x in n.walk()) and 'cons' in (ast.unparse(n.ast) if n.ast is not None else '') + 'cons']
    cons_lookups = [n for n in lookups if n.ast is not None and any(k in ast.unparse(n.ast) for k in ('cons.pat.id', 'op.id', 'arg.id'))]
    okh = bool(hs) and all(any(x.kind == 'raise' and P.exc_name(gpn.f.mod, x.ast.exc) == SE for x in gpn.cfg.nodes if x.id in gpn.cfg.reachable(h)) and
                           gpn.cfg.exit.id not in gpn.cfg.reachable(h, follow_exc=False) for h in hs)
    covered = all(any(s is h for (s, l) in n.succ for h in hs) for n in cons_lookups)
    if okh and cons_lookups and covered:
        R.ok('C13.GRD.3', inst, site(gpn, hs[0].ast), f'{len(cons_lookups)} lookups under the handler')
    else:
        R.fail('C13.GRD.3', inst, gpn.qual, hs[0].ast if hs else 'def _gen_pattern_numbers', 'a constraint on / with a pattern that occurs nowhere is not reported as SemanticError',
               site(gpn, gpn.f.node))
    # rule cycles and signing cycles use top_order
    inst = sr.qual + ' :: rule references sorted (cycles / dangling detected) by top_order'
    tc = [c for (n, c) in calls_in_ctx(sr) if isinstance(c.func, ast.Name) and c.func.id == 'top_order']
    if len(tc) == 1 and [ast.unparse(a) for a in tc[0].args] == ['rule_id_set', 'adj_lst']:
        R.ok('C13.GRD.3', inst, site(sr, tc[0]))
    else:
        R.fail('C13.GRD.3', inst, sr.qual, 'def _sort_rule_references', 'rule reference cycles are not checked', site(sr, sr.f.node))
    # ... over a graph that holds every reference of every definition of a rule (a rule may be defined several times: alternatives)
    inst = sr.qual + ' :: the reference graph accumulates the references of every definition of a rule'
    if len(tc) == 1 and len(tc[0].args) == 2 and isinstance(tc[0].args[1], ast.Name):
        G = tc[0].args[1].id
        probs = []
        rule_loops = [n for n in sr.cfg.nodes if n.kind == 'for' and ast.unparse(n.ast.iter) == 'self.lvs.rules']
        in_rule_loop = lambda node_ast: any(any(x is node_ast for x in ast.walk(l.ast)) for l in rule_loops)
        for n in sr.cfg.nodes:
            if n.kind == 'stmt' and isinstance(n.ast, ast.Assign) and in_rule_loop(n.ast):
                for t in n.ast.targets:
                    whole = isinstance(t, ast.Name) and t.id == G
                    entry = isinstance(t, ast.Subscript) and isinstance(t.value, ast.Name) and t.value.id == G
                    if not (whole or entry):
                        continue
                    guarded = False
                    if entry:
                        k = ast.unparse(t.slice)
                        for g_ in sr.cfg.nodes:
                            if g_.kind == 'test' and isinstance(g_.ast, ast.Compare) and len(g_.ast.ops) == 1 and isinstance(g_.ast.ops[0], (ast.In, ast.NotIn)) \
                                    and ast.unparse(g_.ast.left) == k and ast.unparse(g_.ast.comparators[0]) == G:
                                absent = isinstance(g_.ast.ops[0], ast.NotIn)
                                if n.id not in sr.cfg.reachable(removed_edges={(g_.id, absent)}):
                                    guarded = True
                    if not guarded:
                        probs.append((n.ast, f'`{norm(n.ast)}` inside the loop over the rule definitions starts the entry afresh for every definition: the '
                                             'references of an earlier definition of the same rule are lost, a cycle through them is not reported'))
        adds_g = [(n, c) for (n, c) in calls_in_ctx(sr, attr='append') if isinstance(c.func.value, ast.Subscript) and isinstance(c.func.value.value, ast.Name)
                  and c.func.value.value.id == G]
        isr = [t for t in sr.cfg.nodes if t.kind == 'test' and isinstance(t.ast, ast.Call) and ast.unparse(t.ast.func) == 'isinstance' and len(t.ast.args) == 2
               and ast.unparse(t.ast.args[1]).endswith('RuleId')]
        if len(adds_g) != 1 or len(isr) != 1:
            probs.append((sr.f.node, f'{len(adds_g)} statements add a reference to the graph, {len(isr)} tests for a rule reference: expected one of each'))
        else:
            (an, ac) = adds_g[0]
            cvar = ast.unparse(isr[0].ast.args[0])
            if ast.unparse(ac.func.value.slice) != 'rule.id.id' or ast.unparse(ac.args[0]) != f'{cvar}.id':
                probs.append((ac, f'the edge added is {ast.unparse(ac.func.value.slice)} -> {ast.unparse(ac.args[0])}, expected rule.id.id -> {cvar}.id'))
            # from "this component is a rule reference" every way on that does not raise passes the append
            inner = [n for n in sr.cfg.nodes if n.kind == 'for' and any(x is isr[0].ast for x in ast.walk(n.ast)) and ast.unparse(n.ast.target) == cvar]
            r_ = reach_from_succ(sr.cfg, isr[0], True, removed_nodes={an.id}, follow_exc=False)
            if inner and (inner[0].id in r_ or sr.cfg.exit.id in r_):
                probs.append((isr[0].ast, 'a rule reference can be passed over without being entered into the graph (cycles through it are not reported)'))
        if probs:
            for (construct, what) in probs:
                R.fail('C13.GRD.3', inst, sr.qual, construct if not isinstance(construct, (ast.FunctionDef, ast.AsyncFunctionDef)) else 'def _sort_rule_references', what, site(sr, construct))
        else:
            R.ok('C13.GRD.3', inst, site(sr, adds_g[0][1]))
    inst = sc.qual + ' :: signing relation checked for cycles by top_order'
    tc = [c for (n, c) in calls_in_ctx(sc) if isinstance(c.func, ast.Name) and c.func.id == 'top_order']
    adds = [c for (n, c) in calls_in_ctx(df, attr='append') if ast.unparse(c.func.value) == f'adj_lst[{cur}]' and ast.unparse(c.args[0]) == 'key_node_id']
    if len(tc) == 1 and [ast.unparse(a) for a in tc[0].args] == ['nodes_id_lst', 'adj_lst'] and adds:
        R.ok('C13.GRD.3', inst, site(sc, tc[0]))
    else:
        R.fail('C13.GRD.3', inst, sc.qual, tc[0] if tc else 'def _sanity_check', 'cyclic signing relations are not detected (no top_order over the signing graph)', site(sc, sc.f.node))
    fx = ctx(R, CP + '.Compiler._fix_signing_references')
    import re as _re

    def unknown_signer(t):
        x = ast.unparse(t)
        if _re.fullmatch(r'\w+ not in self\.rule_node_ids', x) or _re.fullmatch(r'self\.rule_node_ids\.get\(\w+(, None)?\) is None', x):
            return True
        if _re.fullmatch(r'\w+ in self\.rule_node_ids', x) or _re.fullmatch(r'self\.rule_node_ids\.get\(\w+(, None)?\) is not None', x):
            return False
        return None
    guard2(fx, 'unknown signer rule', unknown_signer)
    # ------------------------------------------------------------------ LOP.1 top_order terminates
    R.ob('C13.LOP.1', 'top_order terminates: every round removes at least one node or raises')
    inst = to.qual + ' :: progress per round'
    marks = [n for n in to.cfg.nodes if loops and n.kind == 'stmt' and isinstance(n.ast, ast.Assign) and isinstance(n.ast.targets[0], ast.Subscript)
             and isinstance(n.ast.targets[0].value, ast.Name) and ast.unparse(n.ast.targets[0].slice) == loops[0].ast.target.id
             and ast.unparse(n.ast.value) == '-1']
    empt = [t for t in to.cfg.nodes if t.kind == 'test' and empty_round(t.ast) is not None]
    okp = len(wh) == 1 and len(apps) == 1 and len(marks) == 1 and len(loops) == 1 and len(empt) == 1 and \
        any(x is apps[0].ast for x in ast.walk(loops[0].ast)) and any(x is marks[0].ast for x in ast.walk(loops[0].ast)) and \
        not any(isinstance(x, (ast.If, ast.Continue, ast.Break)) for x in ast.walk(loops[0].ast))
    if okp:
        # the loop over cur_round is reached only when cur_round is non-empty
        okp = loops[0].id not in to.cfg.reachable(removed_edges={(empt[0].id, not empty_round(empt[0].ast))})
    if okp:
        R.ok('C13.LOP.1', inst, site(to, wh[0].ast))
    else:
        R.fail('C13.LOP.1', inst, to.qual, wh[0].ast if wh else 'def top_order', 'a round of top_order can complete without removing a node (non-termination on cyclic input)', site(to, to.f.node))
    R.assumptions += ['that every ill-formed schema is caught needs the language semantics and is not decided',
                      'termination of _match on accepted models follows from the tree property (GRD.1 rule 6 + GRD.2) only']
