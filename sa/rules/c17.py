"""C17 — prefix registration protocol (DESIGN §4 C17)."""
import ast

from .common import (self_attr, ctx, family, returns, calls_in_ctx, reach_from_succ, site, srcs_text, resolve_call, const_bool, stmt_at, full_text, bound_args, call_arg, explore, path_texts, template_text)
from ..esc import esc_of, short
from ..flow import callee_attr
from ..loader import AnalysisError, norm
from ..models import models_of

FUNCS = [  # (function, verb, express method, index of the reply in the awaited tuple, arity)
    ('ndn.transport.nfd_registerer.NfdRegister.register', 'register', 'express', 1, 3),
    ('ndn.transport.nfd_registerer.NfdRegister.unregister', 'unregister', 'express', 1, 3),
    ('ndn.app.NDNApp.register', 'register', 'express_interest', 2, 3),
    ('ndn.app.NDNApp.unregister', 'unregister', 'express_interest', 2, 3),
]
DOCUMENTED = ['ndn.types.InterestNack', 'ndn.types.InterestTimeout', 'ndn.types.InterestCanceled', 'ndn.types.ValidationFailure']
PARSE = 'ndn.app_support.nfd_mgmt.parse_response'


def status_tests(cx):
    """[(test node, label of the SUCCESS edge)] for comparisons of <x>['status_code'] with 200"""
    out = []
    for n in cx.cfg.nodes:
        if n.kind == 'test' and isinstance(n.ast, ast.Compare) and len(n.ast.ops) == 1:
            l, r, op = n.ast.left, n.ast.comparators[0], n.ast.ops[0]
            if isinstance(l, ast.Constant):
                l, r = r, l
            if isinstance(l, ast.Name):
                # the code read into a local first: `code = resp['status_code']` / `code, text = (resp['status_code'], resp['status_text'])`
                ss = [s_.expr for s_ in cx.sources(n, l) if s_.kind == 'expr']
                if len(ss) == 1 and isinstance(ss[0], ast.Subscript):
                    l = ss[0]
            if isinstance(l, ast.Subscript) and isinstance(l.slice, ast.Constant) and l.slice.value == 'status_code' \
                    and isinstance(r, ast.Constant) and r.value == 200:
                if isinstance(op, ast.Eq):
                    out.append((n, True, l))
                elif isinstance(op, ast.NotEq):
                    out.append((n, False, l))
    return out


LOCK_CTORS = ('Semaphore', 'BoundedSemaphore', 'Lock')
LOOP_GETTERS = ('get_running_loop', 'get_event_loop')


def _is_lock_ctor(e):
    return isinstance(e, ast.Call) and ast.unparse(e.func).split('.')[-1] in LOCK_CTORS


def lock_creations(P, mod, cls):
    """[(function, assign stmt, attr)] for every `self.<attr> = <Semaphore|Lock>(..)` in the methods of a class (and its bases in the package)"""
    out = []
    classes = P.mro(mod, cls) if (mod, cls) in P.classes else [(mod, cls)]
    for q, f in sorted(P.funcs.items()):
        if (f.mod, f.cls) not in classes:
            continue
        for st in ast.walk(f.node):
            if isinstance(st, ast.Assign) and _is_lock_ctor(st.value):
                for t in st.targets:
                    if self_attr(t):
                        out.append((f, st, t.attr))
    return out


def lock_attrs(P, cx, wnode):
    """names of the instance attributes holding an asyncio lock that the `async with` of wnode acquires (empty: not a lock of this object)"""
    created = {a for (_f, _st, a) in lock_creations(P, cx.f.mod, cx.f.cls)}
    out = set()
    for item in wnode.ast.items:
        e = item.context_expr
        exprs = [s_.expr for s_ in cx.sources(wnode, e) if s_.kind == 'expr'] if isinstance(e, ast.Name) else [e]
        for x in exprs:
            if self_attr(x) and x.attr in created:
                out.add(x.attr)
            elif isinstance(x, ast.Call) and self_attr(x.func):
                # a (reference-tree) method handing out the lock: every return is self.<attr>
                q = resolve_call(P, cx, x)
                if q and q in P.funcs:
                    rets = [r.value for r in ast.walk(P.funcs[q].node) if isinstance(r, ast.Return)]
                    if rets and all(self_attr(r) and r.attr in created for r in rets):
                        out |= {r.attr for r in rets}
    return out


def loop_guard(P, f, st, attr):
    """is the creation `st` (in function f) made once per event loop?  -> (ok, why)
    accepted: (a) unconditionally at the top level of the per-connection coroutine main_loop; (b) under the "another loop" edge of an identity /
    equality test between a remembered loop (self.<L>) and asyncio.get_running_loop(), with self.<L> = that loop stored in the same branch."""
    from ..flow import ctx_of
    if f.node.name == "__init__":
        return False, 'it is created once per object in __init__'
    if isinstance(f.node, ast.AsyncFunctionDef) and f.node.name == "main_loop" and st in f.node.body:
        return True, 'created unconditionally each time main_loop (one connection, one event loop) starts'
    cx = ctx_of(P, f.qual)
    node = next((n for n in cx.cfg.nodes if n.ast is st), None)
    if node is None:
        return False, 'creation site not found in the flow graph'
    for t in cx.cfg.nodes:
        if t.kind != 'test' or not isinstance(t.ast, ast.Compare) or len(t.ast.ops) != 1 or \
                not isinstance(t.ast.ops[0], (ast.Is, ast.IsNot, ast.Eq, ast.NotEq)):
            continue
        sides = [t.ast.left, t.ast.comparators[0]]

        def is_loop(e):
            xs = [s_.expr for s_ in cx.sources(t, e) if s_.kind == 'expr'] if isinstance(e, ast.Name) else [e]
            return bool(xs) and all(isinstance(x, ast.Call) and ast.unparse(x.func).split('.')[-1] in LOOP_GETTERS for x in xs)
        loops = [e for e in sides if is_loop(e)]
        mem = [e for e in sides if self_attr(e)]
        if len(loops) != 1 or len(mem) != 1:
            continue
        differ = isinstance(t.ast.ops[0], (ast.IsNot, ast.NotEq))
        if node.id in cx.cfg.reachable(removed_edges={(t.id, differ)}):
            continue        # also created when the loop is the remembered one
        region = reach_from_succ(cx.cfg, t, label=differ, removed_edges={(t.id, not differ)})
        stores = [n for n in cx.cfg.nodes if n.id in region and n.kind == 'stmt' and isinstance(n.ast, ast.Assign) and
                  any(self_attr(x, mem[0].attr) for x in n.ast.targets)]
        if not stores:
            return False, f'it is re-created whenever self.{mem[0].attr} differs from the running loop, but the running loop is never remembered there: ' \
                          'every call gets a semaphore of its own and nothing is serialised'
        return True, f'created under `{ast.unparse(t.ast)}` (per event loop), the loop is remembered in self.{mem[0].attr}'
    return False, 'it is not created per event loop (no test against asyncio.get_running_loop() guards the creation)'


def run(R):
    P = R.P
    E = esc_of(P)
    locks_used = {}
    R.ob('C17.ORD.2', 'the test-and-advance of _last_command_timestamp happens inside the critical section that sends the command')
    R.ob('C17.ORD.3', 'the registration semaphore is created once per event loop / connection (an asyncio lock belongs to the loop it is first '
                      'waited on in; run_forever starts a new loop per connection), and register / unregister of one object use the same one')
    R.ob('C17.MPT.1', 'success (True) is reported only through the status_code == 200 edge of parse_response(<the reply>); '
                      'every other outcome reports False')
    R.ob('C17.ESC.1', 'neither the awaited command (Nack/timeout/cancel/validation failure) nor decoding of the response can '
                      'escape register/unregister')
    R.ob('C17.ORD.1', 'every command is sent inside `async with` the one registration semaphore, exactly once per call')
    R.ob('C17.LOP.1', 'the timestamp wait cannot fall through to the send without advancing _last_command_timestamp, and only '
                      'advances it (now > last)')
    R.ob('C17.PRV.1', 'command shape: /localhost|localhop/nfd/rib/<verb>/<ControlParameters(name=prefix)>, signed in the format of the front-end')
    R.ob('C17.LOP.2', 'routes declared with route() are registered once per main_loop; parse_response copies every field')
    pr = E.analyze(PARSE, fine=False)
    pr_excs = sorted({e for (e, _) in pr.raises})
    R.extra['parse_response_escape_set'] = [short(e) for e in pr_excs]
    for (fq, verb, meth, ridx, arity) in FUNCS:
        cx = ctx(R, fq)
        sends = calls_in_ctx(cx, attr=meth)
        inst0 = f'{fq} :: command send'
        if len(sends) != 1:
            R.fail('C17.ORD.1', inst0, fq, 'def ' + verb, f'{len(sends)} command Interests sent per call instead of exactly one', site(cx, cx.f.node))
            if not sends:
                continue
        (sn, sc) = sends[0]
        # ------------------------------------------------------------ MPT.1
        sts = status_tests(cx)
        trues = [r for r in returns(cx) if const_bool(r.ast.value) is True]
        expr_rets = [r for r in returns(cx) if const_bool(r.ast.value) is None]
        inst = f'{fq} :: success only on status 200'
        probs = []
        for r in expr_rets:
            e = r.ast.value
            okexpr = isinstance(e, ast.Compare) and len(e.ops) == 1 and isinstance(e.ops[0], ast.Eq) and \
                isinstance(e.left, ast.Subscript) and isinstance(e.left.slice, ast.Constant) and e.left.slice.value == 'status_code' \
                and isinstance(e.comparators[0], ast.Constant) and e.comparators[0].value == 200
            if okexpr:
                sts.append((r, None, e.left))
            else:
                q = resolve_call(P, cx, e.value) if isinstance(e, ast.Await) and isinstance(e.value, ast.Call) else None
                if q is None:
                    raise AnalysisError(f'{fq}: unrecognised return value {norm(r.ast)}')
        if not sts:
            probs.append(('the status code of the forwarder\'s reply is never examined', trues[0].ast if trues else cx.f.node))
        else:
            removed = {(t.id, lab) for (t, lab, _) in sts if lab is not None}
            reach = cx.cfg.reachable(removed_edges=removed)
            for r in trues:
                if r.id in reach:
                    probs.append(('reports success on a path that does not pass the status_code == 200 edge', r.ast))
            # provenance of the tested dict: parse_response(reply), reply = element ridx of the awaited command
            for (t, lab, sub) in sts:
                ok = False
                for s in cx.sources(t, sub.value):
                    if s.kind == 'expr' and isinstance(s.expr, ast.Call) and resolve_call(P, cx, s.expr) == PARSE and s.expr.args:
                        for s2 in s.ctx.sources(s.node, s.expr.args[0]):
                            if s2.kind == 'unpack' and s2.extra == ridx and any(x is sc for x in ast.walk(s2.expr)):
                                ok = True
                            elif s2.kind == 'expr' and isinstance(s2.expr, ast.Subscript) and any(x is sc for x in ast.walk(s2.expr)) \
                                    and isinstance(s2.expr.slice, ast.Constant) and s2.expr.slice.value == ridx:
                                ok = True
                if not ok:
                    probs.append((f'the status tested does not come from parse_response(<element {ridx} of the awaited reply>)', sub))
        # the failure outcomes return False: each handler of the documented set returns a falsy constant
        for h in [h for h in cx.cfg.nodes if h.kind == 'handler']:
            for r in returns(cx):
                if r.id in cx.cfg.reachable(h) and h.ast in r.in_handlers and const_bool(r.ast.value) is True:
                    probs.append(('a failed command (exception handler) reports success', r.ast))
        if cx.cfg.falloff.id in cx.cfg.reachable(follow_exc=False):
            probs.append(('a path ends without reporting a boolean result', cx.f.node))
        if probs:
            for (what, construct) in probs:
                R.fail('C17.MPT.1', inst, fq, construct if not isinstance(construct, (ast.AsyncFunctionDef, ast.FunctionDef)) else 'def ' + verb,
                       what, site(cx, construct))
        else:
            R.ok('C17.MPT.1', inst, site(cx, sts[0][0].ast), f'{len(trues)} `return True`, {len(sts)} status test(s)')
        R.paths_examined += len(trues) + len(sts)
        # ------------------------------------------------------------ ESC.1
        # (a) documented exceptions of the awaited command are caught at the await
        hs = []
        for hl in sn.in_handlers:
            pass
        caught = []
        for (s, l) in sn.succ:
            if l == 'exc' and s.kind == 'handler':
                caught += P.handler_names(cx.f.mod, s.ast)
        for d in DOCUMENTED:
            inst = f'{fq} :: {d.rsplit(".", 1)[1]} of the awaited command'
            if P.caught_by(d, caught):
                R.ok('C17.ESC.1', inst, site(cx, sc), 'caught')
            else:
                R.fail('C17.ESC.1', inst, fq, sc, f'{d.rsplit(".", 1)[1]} raised by the command Interest escapes {verb}()', site(cx, sc))
        # (b) parse_response
        S = E.analyze(fq, fine=True)
        esc = {}
        for (exc, (line, last)), w in S.raises.items():
            if f'-> {PARSE}' in w.split(' :: ')[0]:
                esc.setdefault((line, exc), []).append(w)
        pcalls = [c for (n, c) in calls_in_ctx(cx) if resolve_call(P, cx, c) == PARSE]
        if pcalls or esc:
            inst = f'{fq} :: decoding the response'
            if esc:
                for (line, exc), ws in sorted(esc.items()):
                    st = stmt_at(cx.f.node, line)
                    R.fail('C17.ESC.1', f'{fq} :: {short(exc)} from parse_response', fq, st if st is not None else f'line {line}',
                           f'{short(exc)} raised while decoding the forwarder\'s response escapes {verb}() (e.g. {ws[0][-160:]})',
                           f'{cx.f.path}:{line}', witness=sorted(ws)[:5])
            else:
                R.ok('C17.ESC.1', inst, site(cx, pcalls[0]), f'parse_response may raise {[short(e) for e in pr_excs]}; all caught here')
        # ------------------------------------------------------------ ORD.1 / ORD.2 / ORD.3
        awiths = [n for n in cx.cfg.nodes if n.kind == 'with' and isinstance(n.ast, ast.AsyncWith)]
        lock_of = {n.id: lock_attrs(P, cx, n) for n in awiths}
        withs = [n for n in awiths if lock_of[n.id]]
        inst = f'{fq} :: inside the semaphore'
        if not withs or sn.id in cx.cfg.reachable(removed_nodes={n.id for n in withs}):
            R.fail('C17.ORD.1', inst, fq, sc, 'the command is sent without holding the registration semaphore '
                   '(concurrent commands may carry the same timestamp)', site(cx, sc))
        else:
            R.ok('C17.ORD.1', inst, site(cx, withs[0].ast))
            locks_used.setdefault(cx.f.cls, {})[verb] = frozenset().union(*[lock_of[n.id] for n in withs])
        stamp_nodes = [n for n in cx.cfg.nodes if n.kind in ('stmt', 'test') and n.ast is not None and
                       any(self_attr(x, '_last_command_timestamp') for x in ast.walk(n.ast))]
        if stamp_nodes and withs:
            inst = f'{fq} :: timestamp bookkeeping inside the semaphore'
            outside = cx.cfg.reachable(removed_nodes={n.id for n in withs})
            bad = [n for n in stamp_nodes if n.id in outside]
            if bad:
                R.fail('C17.ORD.2', inst, fq, bad[0].ast, '_last_command_timestamp is read / advanced outside the critical section that sends the '
                       'command: requests queued on the semaphore have all passed the "newer than the last one" test before any of them sends, '
                       'and then send back-to-back within one clock reading', site(cx, bad[0].ast))
            else:
                R.ok('C17.ORD.2', inst, site(cx, stamp_nodes[0].ast))
        # ------------------------------------------------------------ LOP.1 (front-end with explicit timestamp bookkeeping)
        stamps = [n for n in cx.cfg.nodes if n.kind == 'stmt' and isinstance(n.ast, ast.Assign)
                  and any(ast.unparse(t) == 'self._last_command_timestamp' for t in n.ast.targets)]
        if stamps:
            inst = f'{fq} :: timestamp advances before the send'
            if sn.id in cx.cfg.reachable(removed_nodes={n.id for n in stamps}, follow_exc=False):
                loops = [n for n in cx.cfg.nodes if n.kind == 'for']
                R.fail('C17.LOP.1', inst, fq, loops[0].ast if loops else sc,
                       'the bounded wait can be exhausted and the command sent with a timestamp that is not newer than the last one',
                       site(cx, loops[0].ast if loops else sc))
            else:
                R.ok('C17.LOP.1', inst, site(cx, stamps[0].ast))
            sleeps = [c for (n, c) in calls_in_ctx(cx, attr='sleep')]
            inst = f'{fq} :: the wait lets the clock advance'
            tick = 0.001        # utils.timestamp() has millisecond resolution
            if not sleeps:
                R.fail('C17.LOP.1', inst, fq, stamps[0].ast, 'the timestamp wait never suspends', site(cx, stamps[0].ast))
            else:
                for c in sleeps:
                    v = c.args[0].value if c.args and isinstance(c.args[0], ast.Constant) else None
                    if not isinstance(v, (int, float)):
                        raise AnalysisError(f'{fq}: non-constant sleep in the timestamp wait')
                    if v < tick:
                        R.fail('C17.LOP.1', inst, fq, c, f'each retry of the timestamp wait sleeps {v}s, less than one clock tick ({tick}s): the '
                               'bounded wait is used up within the same clock reading', site(cx, c))
                    else:
                        R.ok('C17.LOP.1', inst, site(cx, c), f'sleep({v}) >= clock tick')
            for st in stamps:
                inst = f'{fq} :: {norm(st.ast)} only when newer'
                val = ast.unparse(st.ast.value)
                tests = [t for t in cx.cfg.nodes if t.kind == 'test' and isinstance(t.ast, ast.Compare) and len(t.ast.ops) == 1
                         and '_last_command_timestamp' in ast.unparse(t.ast)]
                okedges = []
                for t in tests:
                    l, r, op = ast.unparse(t.ast.left), ast.unparse(t.ast.comparators[0]), t.ast.ops[0]
                    if l == val and r == 'self._last_command_timestamp' and isinstance(op, ast.Gt):
                        okedges.append((t.id, True))
                    elif r == val and l == 'self._last_command_timestamp' and isinstance(op, ast.Lt):
                        okedges.append((t.id, True))
                    elif l == val and r == 'self._last_command_timestamp' and isinstance(op, ast.LtE):
                        okedges.append((t.id, False))
                if not okedges or st.id in cx.cfg.reachable(removed_edges=set(okedges)):
                    R.fail('C17.LOP.1', inst, fq, st.ast, 'the command timestamp can be set to a value that is not strictly newer', site(cx, st.ast))
                else:
                    R.ok('C17.LOP.1', inst, site(cx, st.ast))
        # ------------------------------------------------------------ PRV.1
        inst = f'{fq} :: command name and signing'
        probs = []
        cmds = [c for c in ast.walk(sc) if isinstance(c, ast.Call) and ast.unparse(c.func).split('.')[-1] in ('make_command', 'make_command_v2')]
        if len(cmds) != 1:
            probs.append(('the Interest name is not built by make_command / make_command_v2', sc))
        else:
            mc = cmds[0]
            a = [x.value if isinstance(x, ast.Constant) else None for x in mc.args[:2]]
            if a != ['rib', verb]:
                probs.append((f'command is {a}, expected ["rib", "{verb}"]', mc))
            kw = bound_args(P, cx, mc)
            if 'name' not in kw:
                probs.append(('the prefix is not passed as control parameter `name`', mc))
            else:
                pn = cx.f.node.args.args[1].arg
                srcs = cx.sources(sn, kw['name'])
                okn = bool(srcs) and all((s.kind == 'param' and s.expr == pn) or
                                         (s.kind == 'expr' and isinstance(s.expr, ast.Call) and ast.unparse(s.expr.func).endswith('Name.normalize')
                                          and ast.unparse(s.expr.args[0]) == pn) for s in srcs)
                if not okn:
                    probs.append((f'control parameter name is {srcs_text(srcs)}, not the prefix argument', mc))
            face = ast.unparse(mc.args[2]) if len(mc.args) > 2 else None
            if face not in ('self.app.face', 'self.face'):
                probs.append(('the face (local / non-local scope) is not passed to make_command', mc))
            fname = ast.unparse(mc.func).split('.')[-1]
            skw = bound_args(P, cx, sc)
            if meth == 'express':
                if fname != 'make_command_v2':
                    probs.append(('v2 front-end must use make_command_v2 (signed Interest v0.3)', mc))
                ap = skw.get('app_param')
                if not (isinstance(ap, ast.Constant) and ap.value == b''):
                    probs.append(("v2 command must carry app_param=b'' so that it is a signed Interest with a parameters digest", sc))
                sg = skw.get('signer')
                if not (isinstance(sg, ast.Call) and ast.unparse(sg.func).endswith('DigestSha256Signer')
                        and isinstance(call_arg(P, cx, sg, 'for_interest'), ast.Constant) and call_arg(P, cx, sg, 'for_interest').value is True):
                    probs.append(('v2 command must be signed with DigestSha256Signer(for_interest=True)', sc))
            else:
                if fname != 'make_command':
                    probs.append(('v1 front-end must use make_command (timestamp/nonce/signature components)', mc))
        if probs:
            for (what, construct) in probs:
                R.fail('C17.PRV.1', inst, fq, construct, what, site(cx, construct))
        else:
            R.ok('C17.PRV.1', inst, site(cx, sc))
    for cls_name, by_verb in sorted(locks_used.items()):
        fqs = [fq for (fq, _v, _m, _r, _a) in FUNCS if fq.split('.')[-2] == cls_name]
        f0 = P.funcs[fqs[0]]
        inst = f'{f0.mod}.{cls_name} :: one semaphore for register and unregister'
        if len(set(by_verb.values())) != 1 or len(by_verb) != 2:
            R.fail('C17.ORD.3', inst, fqs[0], 'def register', f'register / unregister hold different locks: { {k: sorted(v) for k, v in by_verb.items()} }',
                   f'{f0.path}:{f0.node.lineno}')
        else:
            R.ok('C17.ORD.3', inst, f'{f0.path}:{f0.node.lineno}', f'both hold self.{sorted(next(iter(by_verb.values())))}')
        attrs = set().union(*by_verb.values())
        seen_sites = set()
        for (f, st, a) in lock_creations(P, f0.mod, cls_name):
            if a not in attrs or (f.path, st.lineno) in seen_sites:
                continue
            seen_sites.add((f.path, st.lineno))
            ok, why = loop_guard(P, f, st, a)
            inst = f'{f0.mod}.{cls_name} :: self.{a} created per event loop'
            if ok:
                R.ok('C17.ORD.3', inst, f'{f.path}:{st.lineno}', why)
            else:
                R.fail('C17.ORD.3', inst, f.qual, st, f'the registration semaphore self.{a}: {why}. Once two registrations have overlapped it is bound to '
                       'the event loop of that connection; in the loop of the next connection (run_forever again) the first overlapping registration '
                       'raises RuntimeError ("bound to a different event loop"): register() raises instead of reporting a bool and the routes declared '
                       'before connecting are not registered', f'{f.path}:{st.lineno}')
    R.minimum('C17.ORD.1', 4)
    R.minimum('C17.ORD.3', 4)
    R.minimum('C17.MPT.1', 4)

    # ---------------------------------------------------------------- make_command_v2 / make_command shape
    mk = ctx(R, 'ndn.app_support.nfd_mgmt.make_command_v2')
    inst = 'make_command_v2 :: name layout'
    probs = []
    # command prefix per locality of the face, decided under the valuation "the face is local" / "is not local": the f-strings that
    # are reachable, with a conditional inside an f-string folded under the same valuation
    seen_prefix = {}
    for local in (True, False):
        def loc_atom(e, local=local):
            if isinstance(e, ast.UnaryOp) and isinstance(e.op, ast.Not):
                v_ = loc_atom(e.operand)
                return None if v_ is None else (not v_)
            if isinstance(e, ast.Constant) and isinstance(e.value, bool):
                return e.value
            if isinstance(e, ast.Call) and isinstance(e.func, ast.Name) and e.func.id == 'bool' and len(e.args) == 1:
                return loc_atom(e.args[0])
            if isinstance(e, ast.BoolOp):
                vs_ = [loc_atom(v_) for v_ in e.values]
                if isinstance(e.op, ast.Or):
                    return True if any(v_ is True for v_ in vs_) else (False if all(v_ is False for v_ in vs_) else None)
                return False if any(v_ is False for v_ in vs_) else (True if all(v_ is True for v_ in vs_) else None)
            t = full_text(mk, e)
            if t.endswith('.isLocalFace()'):
                return local
            if isinstance(e, ast.IfExp) and 'isLocalFace()' in t:
                # `face.isLocalFace() if face else True`
                tt = loc_atom(e.test)
                if tt is not None:
                    return loc_atom(e.body if tt else e.orelse) if not isinstance(e.body if tt else e.orelse, ast.Constant) else bool((e.body if tt else e.orelse).value)
                return None
            if t == 'face' or t == 'face is not None':
                return True
            if t == 'face is None':
                return False
            return None
        # the text handed to Name.from_str, read back through the locals on every path possible under the valuation, as a template
        pre = set()
        fs_calls = [(n, c) for (n, c) in calls_in_ctx(mk) if ast.unparse(c.func).endswith('Name.from_str') and c.args]
        for (n, c) in fs_calls:
            for (txt,) in path_texts(mk, n, [c.args[0]], atom=loc_atom):
                e_ = ast.parse(txt, mode='eval').body
                t_ = template_text(e_, decide=loc_atom)
                if t_ is None:
                    raise AnalysisError(f'make_command_v2: cannot read the command prefix `{txt[:80]}` as a text template')
                pre.add(t_)
        seen_prefix[local] = pre
    want_p = {True: {'/localhost/nfd/{module}/{command}'}, False: {'/localhop/nfd/{module}/{command}'}}
    for local in (True, False):
        if seen_prefix[local] != want_p[local]:
            probs.append((f'for a {"local" if local else "non-local"} face the command prefix is {sorted(seen_prefix[local])}, expected {sorted(want_p[local])}', mk.f.node))
    apps = calls_in_ctx(mk, attr='append')
    if not any('cp.encode()' in ast.unparse(c) for (n, c) in apps):
        probs.append(('the encoded ControlParameters are not appended to the command name', mk.f.node))
    kwl = [x for x in ast.walk(mk.f.node) if isinstance(x, ast.For) and 'kwargs' in ast.unparse(x.iter)]
    kwn = [n for n in mk.cfg.nodes if n.kind == 'for' and kwl and n.ast is kwl[0]]
    # every iteration stores the argument somewhere in the ControlParameters: the loop head cannot be reached again (nor the loop left)
    # without passing a store
    kstores = [n for n in mk.cfg.nodes if (n.kind == 'stmt' and n.ast is not None and (
        any(isinstance(c, ast.Call) and isinstance(c.func, ast.Name) and c.func.id == 'setattr' for c in n.calls()) or
        (isinstance(n.ast, ast.Assign) and ast.unparse(n.ast.targets[0]).startswith('cp.cp.'))))]
    if len(kwl) != 1 or not kwn or any(isinstance(x, (ast.Break, ast.Return)) for x in ast.walk(kwl[0])) or \
            kwn[0].id in reach_from_succ(mk.cfg, kwn[0], True, removed_nodes={n.id for n in kstores}, follow_exc=False):
        probs.append(('not every keyword argument is copied into the ControlParameters (a parameter can be skipped)', kwl[0] if kwl else mk.f.node))
    else:
        kv = [ast.unparse(e) for e in kwl[0].target.elts] if isinstance(kwl[0].target, ast.Tuple) else []
        for t in [x for x in ast.walk(kwl[0]) if isinstance(x, ast.If)]:
            if len(kv) == 2 and any(isinstance(y, ast.Name) and y.id == kv[1] for y in ast.walk(t.test)):
                probs.append((f'copying a control parameter depends on its value (`{ast.unparse(t.test)}`): an empty name (the root prefix) '
                              'or a zero would be dropped', t))
    sets = [c for (n, c) in calls_in_ctx(mk) if isinstance(c.func, ast.Name) and c.func.id == 'setattr']
    if not sets or not all(ast.unparse(c.args[0]) == 'cp.cp' for c in sets):
        probs.append(('keyword arguments are not copied into the ControlParameters', mk.f.node))
    if probs:
        for (what, construct) in probs:
            R.fail('C17.PRV.1', inst, mk.qual, construct if not isinstance(construct, ast.FunctionDef) else 'def make_command_v2', what, site(mk, construct))
    else:
        R.ok('C17.PRV.1', inst, site(mk, mk.f.node))
    m1 = ctx(R, 'ndn.app_support.nfd_mgmt.make_command')
    inst = 'make_command :: timestamp, nonce, SignatureInfo, SignatureValue appended in order'
    seq = []
    for (n, c) in sorted(calls_in_ctx(m1, attr='append'), key=lambda x: x[0].id):
        t = ast.unparse(c)
        # the SignatureValue component: Component.from_bytes(<buffer whose first octet is set to TypeNumber.SIGNATURE_VALUE>)
        argn = c.args[0].args[0].id if c.args and isinstance(c.args[0], ast.Call) and c.args[0].args and isinstance(c.args[0].args[0], ast.Name) else None
        is_sv = argn is not None and any(m_.kind == 'stmt' and isinstance(m_.ast, ast.Assign) and ast.unparse(m_.ast.targets[0]) == f'{argn}[0]'
                                         and 'SIGNATURE_VALUE' in ast.unparse(m_.ast.value) for m_ in m1.cfg.nodes)
        seq.append('timestamp' if 'timestamp()' in t else 'nonce' if 'nonce' in t else 'siginfo' if 'SIGNATURE_INFO' in t
                   else 'sigvalue' if is_sv else '?')
    if seq == ['timestamp', 'nonce', 'siginfo', 'sigvalue']:
        R.ok('C17.PRV.1', inst, site(m1, m1.f.node))
    else:
        R.fail('C17.PRV.1', inst, m1.qual, 'def make_command', f'signed-command components appended as {seq}', site(m1, m1.f.node))

    # ---------------------------------------------------------------- LOP.2
    for app, attr in (('ndn.appv2.NDNApp', '_autoreg_routes'), ('ndn.app.NDNApp', '_autoreg_routes')):
        st = ctx(R, app + '.main_loop.<starting_task>')
        loops = [n for n in st.cfg.nodes if n.kind == 'for' and ast.unparse(n.ast.iter) == f'self.{attr}']
        inst = f'{app}.main_loop :: auto-registration of declared routes'
        regs = [(n, c) for (n, c) in calls_in_ctx(st, attr='register')]
        if len(loops) == 1 and len(regs) == 1 and isinstance(loops[0].ast, ast.For) and not any(
                isinstance(x, (ast.Break, ast.Return, ast.Continue)) for x in ast.walk(loops[0].ast)) \
                and any(x is regs[0][1] for x in ast.walk(loops[0].ast)) and any(isinstance(x, ast.Await) and x.value is regs[0][1] for x in ast.walk(loops[0].ast)):
            R.ok('C17.LOP.2', inst, site(st, loops[0].ast))
        else:
            R.fail('C17.LOP.2', inst, st.qual, loops[0].ast if loops else 'def starting_task',
                   'not every declared route is registered exactly once when the connection is established', site(st, st.f.node))
        ml = ctx(R, app + '.main_loop')
        starts = [c for (n, c) in calls_in_ctx(ml) if isinstance(c.func, ast.Name) and c.func.id == 'starting_task']
        inst = f'{app}.main_loop :: starting_task started once after open()'
        opens = [n for (n, c) in calls_in_ctx(ml, attr='open')]
        if len(starts) == 1 and opens and ml.cfg.dominates(opens[0], ml.node_of(starts[0])):
            R.ok('C17.LOP.2', inst, site(ml, starts[0]))
        else:
            R.fail('C17.LOP.2', inst, ml.qual, 'def main_loop', 'auto-registration is not started exactly once after the face is open', site(ml, ml.f.node))
        rt = ctx(R, app + '.route.<decorator>')
        inst = f'{app}.route :: route remembered for later connections'
        if calls_in_ctx(rt, attr='append', pred=lambda c: ast.unparse(c.func.value) == f'self.{attr}'):
            R.ok('C17.LOP.2', inst, site(rt, rt.f.node))
        else:
            R.fail('C17.LOP.2', inst, rt.qual, 'def decorator', 'route() does not record the route for registration on connect', site(rt, rt.f.node))
    # v1: register() re-creates the Interest filter on every connection and set_interest_filter refuses an occupied prefix,
    # so the filters must be dropped when a connection ends (otherwise re-registration raises before any command is sent)
    rg = ctx(R, 'ndn.app.NDNApp.register')
    reattach = [c for (n, c) in calls_in_ctx(rg, attr='set_interest_filter')]
    cu = ctx(R, 'ndn.app.NDNApp._clean_up')
    inst = 'ndn.app.NDNApp._clean_up :: filters dropped so that routes can be registered again on the next connection'
    if reattach:
        clears = [n for (n, c) in calls_in_ctx(cu, attr='clear') if ast.unparse(c.func.value) == 'self._prefix_tree']
        if not clears or cu.cfg.exit.id in cu.cfg.reachable(removed_nodes={n.id for n in clears}, follow_exc=False):
            R.fail('C17.LOP.2', inst, cu.qual, 'def _clean_up', 'register() re-attaches the handler on every connection (set_interest_filter refuses '
                   'an occupied prefix) but the filters are not cleared at disconnect: on reconnect the declared routes raise instead of being registered',
                   site(cu, cu.f.node))
        else:
            R.ok('C17.LOP.2', inst, site(cu, clears[0].ast))
    else:
        R.ok('C17.LOP.2', inst, site(rg, rg.f.node), 'register() does not re-attach')
    # parse_response copies every field of ControlParametersValue + status code and text
    px = ctx(R, PARSE)
    inst = 'parse_response :: copies status and every ControlParametersValue field'
    loops = [n for n in px.cfg.nodes if n.kind == 'for' and '_encoded_fields' in ast.unparse(n.ast.iter)]
    probs = []
    fstores = [n for n in px.cfg.nodes if n.kind == 'stmt' and isinstance(n.ast, ast.Assign) and isinstance(n.ast.targets[0], ast.Subscript)
               and ast.unparse(n.ast.targets[0].slice).endswith('.name')]
    if len(loops) != 1 or ast.unparse(loops[0].ast.iter) != 'ControlParametersValue._encoded_fields' or any(
            isinstance(x, (ast.Break, ast.Return)) for x in ast.walk(loops[0].ast)) or \
            loops[0].id in reach_from_succ(px.cfg, loops[0], True, removed_nodes={n.id for n in fstores}, follow_exc=False):
        probs.append('does not iterate all of ControlParametersValue._encoded_fields')
    stores = {}
    for n in px.cfg.nodes:
        if n.kind == 'stmt' and isinstance(n.ast, ast.Assign):
            for t in n.ast.targets:
                if isinstance(t, ast.Subscript) and isinstance(t.slice, ast.Constant):
                    stores[t.slice.value] = ast.unparse(n.ast.value)
            if isinstance(n.ast.value, ast.Dict):       # the result may start as a dict display
                for k_, v_ in zip(n.ast.value.keys, n.ast.value.values):
                    if isinstance(k_, ast.Constant):
                        stores.setdefault(k_.value, ast.unparse(v_))
    if not stores.get('status_code', '').endswith('.status_code'):
        probs.append(f'status_code is taken from {stores.get("status_code")}')
    if not stores.get('status_text', '').endswith('.status_text'):
        probs.append(f'status_text is taken from {stores.get("status_text")}')
    chk = [c for (n, c) in calls_in_ctx(px) if ast.unparse(c.func).endswith('parse_and_check_tl')]
    if not chk or not (len(chk[0].args) > 1 and P.const_value(px.f.mod, chk[0].args[1]) == 0x65):
        probs.append('outer type 0x65 (ControlResponse) is not checked')
    if probs:
        R.fail('C17.LOP.2', inst, PARSE, 'def parse_response', '; '.join(probs), site(px, px.f.node))
    else:
        R.ok('C17.LOP.2', inst, site(px, px.f.node))
    # ControlResponse model shape (NFD management): 0x65 { 0x66 status, 0x67 text, 0x68? body }
    M = models_of(P)
    cr = [(f.name, f.type) for f in M.fields('ndn.app_support.nfd_mgmt.ControlResponse') if f.wire]
    inst = 'ControlResponse :: field types 0x66 0x67 0x68'
    if [t for (_, t) in cr] == [0x66, 0x67, 0x68]:
        R.ok('C17.LOP.2', inst, '', str(cr))
    else:
        R.fail('C17.LOP.2', inst, 'ndn.app_support.nfd_mgmt.ControlResponse', 'class ControlResponse', f'fields are {cr}', '')
    R.assumptions += ['the forwarder side of the protocol (NFD management, status 200 = success)', 'timestamp values / real clock are not decided']
