"""C06 — receive path: exact stream framing, and no failure on any delivered bytes (DESIGN §4 C06)."""
import ast

from .common import ctx, calls_in_ctx, reach_from_succ, site, srcs_text, escape_check, resolve_call
from ..flow import callee_attr
from ..loader import AnalysisError, norm

READ_TL = 'ndn.encoding.tlv_var.read_tl_num_from_stream'
DATAGRAM = ['ndn.transport.udp_face.UdpFace.open.<PacketHandler>.datagram_received',
            'ndn.transport.ndn_dpdk.NdnDpdkUdpFace.PacketHandler.datagram_received']
# transports whose delivery must be one task per packet; DummyFace (test double, awaits the pipeline on purpose) excluded
SPAWNERS = ['ndn.transport.stream_face.StreamFace.run'] + DATAGRAM


def run(R):
    P = R.P
    R.ob('C06.ESC.1', 'escape set of appv2.NDNApp._receive (incl. _on_interest/_on_data/_on_nack and spawned tasks) is empty')
    escape_check(R, 'C06.ESC.1', 'ndn.appv2.NDNApp._receive', set(), 'the v2 receive pipeline')
    R.ob('C06.ESC.2', 'escape set of app.NDNApp._receive (incl. _on_interest/_on_data/_on_nack and spawned tasks) is empty')
    escape_check(R, 'C06.ESC.2', 'ndn.app.NDNApp._receive', set(), 'the v1 receive pipeline')
    R.ob('C06.ESC.3', 'escape set of the datagram protocol callbacks is empty')
    for q in DATAGRAM:
        escape_check(R, 'C06.ESC.3', q, set(), 'the datagram callback')

    # ---------------------------------------------------------------- ESC.5  the library's own signature verifiers
    # validators run inside the pipeline's tasks. User validators are assumed not to raise; the library's verifiers are code of this
    # repository: for every SignaturePtrs a decoder can hand them (an absent SignatureValue element is `signature_value_buf = None`;
    # the covered-part list is always a list after a parse) they must answer, not fail
    R.ob('C06.ESC.5', 'the library\'s signature verifiers answer False for a packet without SignatureValue, or whose key is of another kind than '
                      'its signature type claims, instead of raising (a validator that raises ends the task completing the pending Interest with an unhandled error)')
    from ..esc import esc_of
    E_ = esc_of(P)
    KV = 'ndn.security.validator.known_key_validator'
    ver = sorted(q for q in P.funcs if q.startswith(KV + '.verify_') and '.<' not in q)
    R.need(len(ver) >= 4, f'only {len(ver)} verify_* functions found in {KV}')
    for q in ver:
        S5 = E_.analyze(q, fine=True)
        R.touch(P.func(q))
        cxv = ctx(R, q)
        bad5 = sorted((line, desc) for (exc, (line, desc)) in S5.raises if exc in ('TypeError', 'AttributeError') and 'signature_value_buf' in desc)
        inst = f'{q} :: absent SignatureValue'
        if bad5:
            R.fail('C06.ESC.5', inst, q, 'def ' + q.rsplit('.', 1)[1], f'{bad5[0][1].split(" ", 1)[1] if " " in bad5[0][1] else bad5[0][1]}: a Data / Interest that has a '
                   'SignatureInfo but no SignatureValue element makes the verifier raise TypeError instead of returning False (repro notes/repro/e17.py)',
                   f'{cxv.f.path}:{bad5[0][0]}')
        else:
            R.ok('C06.ESC.5', inst, cxv.f.loc())
    # ... and the functions that pick the key for them: a key of another kind than the signature type claims (the packet chooses both the
    # type and the key locator) must be a rejection, not a ValueError out of the key import
    pick = sorted(q for q in P.funcs if (q.startswith(KV + '.') and q.endswith('Checker._verify')) or q == 'ndn.security.validator.cascade_validator.CascadeChecker._verify_sig')
    R.need(len(pick) >= 4, f'only {len(pick)} key-selecting verifier functions found')
    for q in pick:
        S6 = E_.analyze(q, fine=True)
        R.touch(P.func(q))
        cxv = ctx(R, q)
        bad6 = sorted((line, desc) for (exc, (line, desc)) in S6.raises if exc == 'ValueError')
        inst = f'{q} :: key of another kind'
        if bad6:
            R.fail('C06.ESC.5', inst, q, 'def ' + q.rsplit('.', 1)[1], f'{bad6[0][1].split(" ", 1)[1] if " " in bad6[0][1] else bad6[0][1]} raises ValueError when the key the '
                   'packet points to is not of the kind its signature type claims: the validator fails inside the pipeline task instead of rejecting the packet '
                   '(repro notes/repro/e20.py)', f'{cxv.f.path}:{bad6[0][0]}')
        else:
            R.ok('C06.ESC.5', inst, cxv.f.loc())
    # ---------------------------------------------------------------- ESC.4  end of stream
    R.ob('C06.ESC.4', 'StreamFace.run: end-of-stream / reset inside a packet is caught, shuts the face down and delivers nothing')
    run_q = 'ndn.transport.stream_face.StreamFace.run'
    S = escape_check(R, 'C06.ESC.4', run_q, set(), 'the stream read loop', only={'EOFError', 'ConnectionError'})
    cx = ctx(R, run_q)
    handlers = [n for n in cx.cfg.nodes if n.kind == 'handler' and P.caught_by('asyncio.IncompleteReadError', P.handler_names(cx.f.mod, n.ast))]
    R.need(handlers or True, '')
    for h in handlers:
        body = set()
        for s in h.ast.body:
            for x in ast.walk(s):
                body.add(id(x))
        delivers = [c for c in ast.walk(h.ast) if isinstance(c, ast.Call) and callee_attr(c) == 'callback']
        shuts = [c for c in ast.walk(h.ast) if isinstance(c, ast.Call) and callee_attr(c) == 'shutdown'] + \
                [a for a in ast.walk(h.ast) if isinstance(a, ast.Assign) and any(ast.unparse(t) == 'self.running' for t in a.targets)
                 and isinstance(a.value, ast.Constant) and a.value.value is False]
        inst = f'{run_q} :: {norm(h.ast)}'
        if delivers:
            R.fail('C06.ESC.4', inst, run_q, delivers[0], 'a partial packet is delivered from the end-of-stream handler', site(cx, delivers[0]))
        elif not shuts:
            R.fail('C06.ESC.4', inst, run_q, h.ast, 'end of stream does not shut the face down (the loop would spin on a dead reader)',
                   site(cx, h.ast))
        else:
            # shutdown must be reached on every path through the handler
            shut_nodes = [n for n in cx.cfg.nodes if any(id(x) in body for x in n.walk()) and
                          any((isinstance(x, ast.Call) and callee_attr(x) == 'shutdown') for x in n.walk())]
            R.ok('C06.ESC.4', inst, site(cx, h.ast), 'handler shuts down, no delivery')

    # ---------------------------------------------------------------- ORD.1 framing
    R.ob('C06.ORD.1', 'framing: per iteration a fresh buffer, T then L read into it, exactly L more bytes, one delivery of '
                      '(T, whole buffer); read_tl_num_from_stream echoes every byte it reads into the buffer')
    reads = [(n, c) for (n, c) in calls_in_ctx(cx) if resolve_call(P, cx, c) == READ_TL]
    inst = run_q + ' :: T/L reads'
    if len(reads) != 2:
        R.fail('C06.ORD.1', inst, run_q, 'def run', f'{len(reads)} type/length reads per packet instead of 2', site(cx, cx.f.node))
    else:
        (n1, c1), (n2, c2) = sorted(reads, key=lambda x: x[0].id)
        probs = []
        bio1 = ast.unparse(c1.args[1]) if len(c1.args) > 1 else None
        bio2 = ast.unparse(c2.args[1]) if len(c2.args) > 1 else None
        if bio1 is None or bio1 != bio2:
            probs.append(('T and L are not echoed into the same buffer', c2))
        if not cx.cfg.dominates(n1, n2):
            probs.append(('the Length read is not preceded by the Type read on every path', c2))
        # value reads
        rex = [(n, c) for (n, c) in calls_in_ctx(cx, attr='readexactly')]
        if len(rex) != 1:
            probs.append((f'{len(rex)} value reads per packet instead of 1', cx.f.node))
        else:
            (nr, cr) = rex[0]
            argsrc = cx.sources(nr, cr.args[0]) if cr.args else []
            l_names = [nm for nm, v in cx.cfg.defs_of(n2)]
            ok_len = bool(argsrc) and all(s.kind == 'expr' and any(x is c2 for x in ast.walk(s.expr)) for s in argsrc)
            if not ok_len:
                probs.append((f'value read size is {srcs_text(argsrc)}, not the Length just read', cr))
            if not cx.cfg.dominates(n2, nr):
                probs.append(('value read not preceded by the Length read', cr))
            # the value is written into the same buffer
            writes = [(n, c) for (n, c) in calls_in_ctx(cx, attr='write') if ast.unparse(c.func.value) == bio1]
            wrote = False
            for (nw, cw) in writes:
                for s in cx.sources(nw, cw.args[0].value if isinstance(cw.args[0], ast.Await) else cw.args[0]) if cw.args else []:
                    if s.kind == 'expr' and any(x is cr for x in ast.walk(s.expr)):
                        wrote = True
                if cw.args and any(x is cr for x in ast.walk(cw.args[0])):
                    wrote = True
            if not wrote:
                probs.append(('the value bytes are not appended to the packet buffer', cr))
            # delivery
            dels = [(n, c) for (n, c) in calls_in_ctx(cx, attr='callback')]
            if len(dels) != 1:
                probs.append((f'{len(dels)} deliveries per iteration instead of 1', cx.f.node))
            else:
                (nd, cd) = dels[0]
                if not cx.cfg.dominates(nr, nd):
                    probs.append(('delivery is not preceded by the value read', cd))
                a0 = cx.sources(nd, cd.args[0]) if cd.args else []
                if not (a0 and all(s.kind == 'expr' and any(x is c1 for x in ast.walk(s.expr)) for s in a0)):
                    probs.append((f'delivered type is {srcs_text(a0)}, not the Type just read', cd))
                a1 = cx.sources(nd, cd.args[1]) if len(cd.args) > 1 else []
                if not (a1 and all(s.kind == 'expr' and isinstance(s.expr, ast.Call) and callee_attr(s.expr) in ('getvalue', 'getbuffer')
                                   and ast.unparse(s.expr.func.value) == bio1 for s in a1)):
                    probs.append((f'delivered bytes are {srcs_text(a1)}, not the whole packet buffer', cd))
        # fresh buffer per iteration
        bdefs = cx.cfg.defs_reaching(n1, bio1) if bio1 else []
        fresh = bool(bdefs) and all(isinstance(v, ast.Call) and ast.unparse(v.func).endswith('BytesIO') and not v.args
                                    and cx.cfg.path_exists(n1, d) for (d, v) in bdefs)
        if not fresh:
            probs.append(('the packet buffer is not created fresh (empty) for every packet', c1))
        if probs:
            for (what, construct) in probs:
                R.fail('C06.ORD.1', inst, run_q, construct if not isinstance(construct, ast.FunctionDef | ast.AsyncFunctionDef) else 'def run',
                       what, site(cx, construct))
        else:
            R.ok('C06.ORD.1', inst, site(cx, c1), 'BytesIO fresh; T, L, readexactly(L), create_task(callback(T, getvalue()))')
    # read_tl_num_from_stream pairing: every readexactly result is written to bio before it is replaced / returned
    rx = ctx(R, READ_TL)
    bio_param = rx.f.node.args.args[1].arg
    for (n, c) in calls_in_ctx(rx, attr='readexactly'):
        names = [nm for nm, v in rx.cfg.defs_of(n)]
        inst = f'{READ_TL} :: {norm(n.ast)}'
        if not names:
            # used inline: must be directly inside bio.write(...)
            inline = any(isinstance(x, ast.Call) and callee_attr(x) == 'write' and ast.unparse(x.func.value) == bio_param
                         and any(y is c for y in ast.walk(x)) for x in n.walk())
            if inline:
                R.ok('C06.ORD.1', inst, site(rx, c), 'read written inline')
            else:
                R.fail('C06.ORD.1', inst, READ_TL, n.ast, 'bytes read from the stream are not echoed into the packet buffer', site(rx, c))
            continue
        var = names[0]
        wnodes = [w for (w, cw) in calls_in_ctx(rx, attr='write')
                  if ast.unparse(cw.func.value) == bio_param and cw.args and ast.unparse(cw.args[0]) == var
                  and any(d is n for (d, _) in rx.cfg.defs_reaching(w, var))]
        redefs = [m for m in rx.cfg.nodes if m is not n and any(nm == var for nm, _ in rx.cfg.defs_of(m))]
        # from n, without passing a write of this value, neither exit nor a redefinition may be reached
        r = reach_from_succ(rx.cfg, n, removed_nodes={w.id for w in wnodes}, follow_exc=False)
        if rx.cfg.exit.id in r or any(m.id in r for m in redefs):
            R.fail('C06.ORD.1', inst, READ_TL, n.ast, 'bytes read from the stream are not echoed into the packet buffer on every path',
                   site(rx, c))
        else:
            R.ok('C06.ORD.1', inst, site(rx, c), f'echoed by {len(wnodes)} write(s)')
    # who-may-read: the framing code takes bytes from the stream only through readexactly (a short read would desynchronise)
    for cxx in (cx, rx):
        for n in cxx.cfg.nodes:
            for c in n.calls():
                if isinstance(c.func, ast.Attribute) and c.func.attr in ('read', 'readline', 'readuntil', 'readexactly') \
                        and 'reader' in ast.unparse(c.func.value):
                    inst = f'{cxx.qual} :: {norm(c)}'
                    if c.func.attr == 'readexactly':
                        R.ok('C06.ORD.1', inst, site(cxx, c), 'exact read')
                    else:
                        R.fail('C06.ORD.1', inst, cxx.qual, c, f'stream bytes are taken with {c.func.attr}(), which may return fewer bytes '
                               'than requested when the packet is cut at this point', site(cxx, c))
    R.minimum('C06.ORD.1', 5)
    # width table of the stream reader == parse_tl_num  (shared with C08.TBL.1)
    from ..tlvtables import varnum_tables, compare_varnum, stream_read_profile
    R.ob('C06.TBL.1', 'read_tl_num_from_stream and parse_tl_num decode the same VAR-NUMBER table')
    try:
        if any(getattr(x, '_table_miss', False) for x in ast.walk(rx.f.node)):
            # an indexed lookup table: its "no such key" arm is not a row of the VAR-NUMBER table (the key is one octet); decided by execution below
            raise AnalysisError('table-driven')
        tabs = varnum_tables(P, ('read_tl_num_from_stream', 'parse_tl_num'))
        for (what, a, b, okay, detail) in compare_varnum(tabs, only=('read_tl_num_from_stream', 'parse_tl_num')):
            inst = f'{a} vs {b} :: {what}'
            if okay:
                R.ok('C06.TBL.1', inst, tabs[a]['site'], detail)
            else:
                R.fail('C06.TBL.1', inst, 'ndn.encoding.tlv_var.' + a, what, f'{a} and {b} disagree: {detail}', tabs[a]['site'])
    except AnalysisError:
        # not an if/elif chain: execute the reader for one representative first octet per class
        prof = stream_read_profile(P)
        want = {0x10: 1, 0xFD: 3, 0xFE: 5, 0xFF: 9}
        for k in sorted(want):
            inst = f'read_tl_num_from_stream :: first octet {k:#x} reads {want[k]} byte(s) in total'
            if prof.get(k) == want[k]:
                R.ok('C06.TBL.1', inst, rx.f.loc(), 'by execution over the extracted size table')
            else:
                R.fail('C06.TBL.1', inst, READ_TL, f'first octet {k:#x}', f'a number starting with {k:#x} takes {want[k]} bytes on the wire but the stream reader '
                       f'consumes {prof.get(k)}: every packet after it is mis-framed', rx.f.loc())

    # ---------------------------------------------------------------- LOP.1 one task per packet
    R.ob('C06.LOP.1', 'every transport hands each packet to the pipeline as its own task (a failing packet cannot stop the loop)')
    for q in SPAWNERS:
        cx2 = ctx(R, q)
        dels = calls_in_ctx(cx2, attr='callback')
        R.need(dels, f'{q}: no delivery found')
        for (n, c) in dels:
            inst = f'{q} :: {norm(c)}'
            wrapped = any(isinstance(x, ast.Call) and callee_attr(x) in ('create_task', 'ensure_future') and x.args and x.args[0] is c
                          for x in n.walk())
            if wrapped:
                R.ok('C06.LOP.1', inst, site(cx2, c))
            else:
                R.fail('C06.LOP.1', inst, q, c, 'the pipeline is run inline in the transport loop, not as its own task', site(cx2, c))
    R.minimum('C06.LOP.1', 3)
    R.assumptions += ['user callbacks (handlers, validators) do not raise', 'assert statements are invariants',
                      'logging, hashing and container methods in tables.SAFE_ATTR_CALLS do not raise',
                      'cooperative cancellation (CancelledError) is legitimate and never reported']
