"""Call normalisation applied to the loaded program (after the registry is built, before any rule runs):

 A. keyword arguments of calls to repository functions / dataclass constructors are put in positional order
    (`f(a, y=b)` == `f(a, b)`), so rules can read arguments by position;
 B. calls to *new private helpers* - functions that do not exist in the reference function list of the analysed code base
    (sa/baseline_funcs.json) - are expanded in place, so that "extract method" refactorings give back the shape the rules
    know. A helper is expanded only at statement level (`x = h(..)`, `return h(..)`, `h(..)`, `if h(..)`, or as the first
    thing a simple statement evaluates), with its parameters and locals renamed apart. A helper with a single trailing return
    is spliced in flat; otherwise its body becomes an InlineBlock whose `return E` are `target = E; InlineExit`.

Both are semantics-preserving; neither is written back. Existing (reference) functions are never expanded: rules name them."""
import ast
import copy
import json
import os

HERE = os.path.dirname(os.path.abspath(__file__))
FuncT = (ast.FunctionDef, ast.AsyncFunctionDef)


class InlineBlock(ast.stmt):
    _fields = ('body',)
    _attributes = ('lineno', 'col_offset', 'end_lineno', 'end_col_offset')


class InlineExit(ast.stmt):
    _fields = ()
    _attributes = ('lineno', 'col_offset', 'end_lineno', 'end_col_offset')


def baseline():
    p = os.path.join(HERE, 'baseline_funcs.json')
    if not os.path.exists(p):
        return None
    return set(json.load(open(p))['functions'])


# ---------------------------------------------------------------------------------------------- resolution
def _resolve(P, f, call):
    """qualname of the repository function a call made inside Func f refers to, for the forms a refactoring produces:
    nested function, module function, self./cls./ClassName. method (also through the MRO)"""
    fn = call.func
    if isinstance(fn, ast.Name):
        q = f.qual
        while q:
            cand = q + '.<' + fn.id + '>'
            if cand in P.funcs:
                return cand
            q = P.funcs[q].parent if q in P.funcs else None
        r = P.resolve(f.mod, fn)
        if r and r[0] in ('func', 'method'):
            return P.qual_of(r)
        if r and r[0] == 'class':
            return ('class', r[1], r[2])
        return None
    if isinstance(fn, ast.Attribute) and isinstance(fn.value, ast.Name):
        if fn.value.id in ('self', 'cls') and f.cls and (f.mod, f.cls) in P.classes:
            for (mm, cc) in P.mro(f.mod, f.cls):
                r = P.find_member(mm, cc, fn.attr)
                if r and r[0] == 'method':
                    return P.qual_of(r)
                if r:
                    return None
            return None
        r = P.resolve(f.mod, fn)
        if r and r[0] in ('func', 'method'):
            return P.qual_of(r)
        if r and r[0] == 'class':
            return ('class', r[1], r[2])
    if isinstance(fn, ast.Attribute) and not (isinstance(fn.value, ast.Name) and fn.value.id in ('self', 'cls')):
        # `<object>.m(..)` where m is a method that did not exist in the reference tree and no other function of the repository bears that
        # name: the one new method, whatever the object is (its first parameter is bound to the receiver on expansion)
        return _unique_new_method(P, fn.attr)
    return None


_BASE_NAMES = None
_BASE = None


def _unique_new_method(P, name):
    global _BASE_NAMES
    global _BASE
    if _BASE is None:
        _BASE = baseline() or set()
    base = _BASE
    if not base or name.startswith('__'):
        return None
    if _BASE_NAMES is None:
        _BASE_NAMES = {q.rsplit('.', 1)[-1].strip('<>') for q in base}
    if name in _BASE_NAMES:
        return None
    idx = getattr(P, '_new_method_index', None)
    if idx is None:
        idx = {}
        for q, f_ in P.funcs.items():
            if f_.cls and f_.parent is None and q not in base and not isinstance(f_.node, ast.Lambda):
                idx.setdefault(q.rsplit('.', 1)[-1], []).append(q)
        P._new_method_index = idx
    cands = idx.get(name, [])
    if len(cands) != 1:
        return None
    fn_ = P.funcs[cands[0]].node
    deco = [ast.unparse(d) for d in fn_.decorator_list]
    if deco or not fn_.args.args or fn_.args.args[0].arg != 'self':
        return None
    return cands[0]


def _params_of(P, target, call):
    """positional parameter names (without the bound self/cls) of the callee, or None"""
    if isinstance(target, tuple):
        cls = P.classes.get((target[1], target[2]))
        if cls is None:
            return None
        init = P.find_member(target[1], target[2], '__init__')
        if init and init[0] == 'method':
            a = init[4].args
            return [x.arg for x in a.posonlyargs + a.args][1:], bool(a.vararg)
        if any('dataclass' in ast.unparse(d) for d in cls.decorator_list):
            names = []
            for (mm, cc) in reversed(P.mro(target[1], target[2])):
                for s in P.classes[(mm, cc)].body:
                    if isinstance(s, ast.AnnAssign) and isinstance(s.target, ast.Name) and 'ClassVar' not in ast.unparse(s.annotation):
                        if s.target.id not in names:
                            names.append(s.target.id)
            return names, False
        return None
    fn = P.funcs[target].node
    if isinstance(fn, ast.Lambda):
        return None
    a = fn.args
    names = [x.arg for x in a.posonlyargs + a.args]
    bound = isinstance(call.func, ast.Attribute) and names and names[0] in ('self', 'cls')
    deco = [ast.unparse(d) for d in fn.decorator_list]
    if 'staticmethod' in deco:
        bound = False
    elif 'classmethod' in deco and names:
        bound = True
    return (names[1:] if bound else names), bool(a.vararg)


def method_signature(P, f, attr):
    """(parameter names without self, has *args) of the repository method called as `<object>.attr(...)` from Func f, when it is
    unambiguous: all repository methods of that name agree, or exactly one of their classes is visible by name in f's module"""
    cands = {}
    for q, g in P.funcs.items():
        if not isinstance(g.node, ast.Lambda) and g.cls and g.node.name == attr and g.parent is None:
            a = g.node.args
            cands[(g.mod, g.cls)] = (tuple(x.arg for x in a.posonlyargs + a.args)[1:], bool(a.vararg))
    if not cands:
        return None
    if len(set(cands.values())) > 1:
        vis = {}
        for (m, c), sg in cands.items():
            r = P.resolve(f.mod, ast.Name(id=c, ctx=ast.Load()))
            if r and r[0] == 'class' and (r[1], r[2]) == (m, c):
                vis[(m, c)] = sg
        cands = vis
    if len(set(cands.values())) != 1:
        return None
    names, var = next(iter(cands.values()))
    return list(names), var


# ---------------------------------------------------------------------------------------------- A. keywords -> positional
def _strip_defaults(P, f, call):
    """`g(x, 0)` where 0 is g's default for that parameter is `g(x)` (trailing positional constants only)"""
    if call.keywords or not call.args or any(isinstance(a, ast.Starred) for a in call.args):
        return
    t = _resolve(P, f, call)
    if not isinstance(t, str) or t not in P.funcs or isinstance(P.funcs[t].node, ast.Lambda):
        return
    fn = P.funcs[t].node
    a = fn.args
    names = [x.arg for x in a.posonlyargs + a.args]
    bound = isinstance(call.func, ast.Attribute) and names and names[0] in ('self', 'cls')
    deco = [ast.unparse(d) for d in fn.decorator_list]
    if 'staticmethod' in deco:
        bound = False
    if bound:
        names = names[1:]
    defaults = dict(zip(names[len(names) - len(a.defaults):], a.defaults)) if a.defaults else {}
    while call.args and len(call.args) <= len(names):
        nm = names[len(call.args) - 1]
        d = defaults.get(nm)
        v = call.args[-1]
        if d is not None and isinstance(d, ast.Constant) and isinstance(v, ast.Constant) and type(d.value) is type(v.value) and d.value == v.value:
            call.args.pop()
        else:
            break


def _positional(P, f, call):
    if not call.keywords:
        _strip_defaults(P, f, call)
    if not call.keywords or any(k.arg is None for k in call.keywords) or any(isinstance(a, ast.Starred) for a in call.args):
        return
    t = _resolve(P, f, call)
    if t is None:
        # method call on some other object: usable when every repository method of that name has the same parameter list
        if isinstance(call.func, ast.Attribute):
            sig = method_signature(P, f, call.func.attr)
            if sig is None:
                return
            names, var = sig
        else:
            return
    else:
        pr = _params_of(P, t, call)
        if pr is None:
            return
        names, var = pr
    if var:
        return
    kw = {k.arg: k.value for k in call.keywords}
    args = list(call.args)
    rest = dict(kw)
    for nm in names[len(args):]:
        if nm in rest:
            args.append(rest.pop(nm))
        else:
            break
    if len(args) > len(call.args):
        call.args = args
        call.keywords = [k for k in call.keywords if k.arg in rest]
    if not call.keywords:
        _strip_defaults(P, f, call)


# ---------------------------------------------------------------------------------------------- B. helper expansion
class _Rename(ast.NodeTransformer):
    def __init__(self, m):
        self.m = m

    def visit_Name(self, n):
        if n.id in self.m:
            return ast.copy_location(ast.Name(id=self.m[n.id], ctx=n.ctx), n)
        return n

    def visit_arg(self, n):
        if n.arg in self.m:
            n.arg = self.m[n.arg]
        return n

    def visit_Nonlocal(self, n):
        n.names = [self.m.get(x, x) for x in n.names]
        return n

    def visit_ExceptHandler(self, n):
        self.generic_visit(n)
        if n.name in self.m:
            n.name = self.m[n.name]
        return n

    def visit_FunctionDef(self, n):
        # a closure of the helper: its name is a local of the helper; names it binds itself (parameters, locals) shadow the helper's
        if n.name in self.m:
            n.name = self.m[n.name]
        own = _locals_of(n)
        inner = _Rename({k: v for k, v in self.m.items() if k not in own})
        n.decorator_list = [self.visit(d) for d in n.decorator_list]
        n.args.defaults = [self.visit(d) for d in n.args.defaults]
        n.args.kw_defaults = [self.visit(d) if d is not None else None for d in n.args.kw_defaults]
        n.body = [inner.visit(s_) for s_ in n.body]
        return n

    visit_AsyncFunctionDef = visit_FunctionDef


def _locals_of(fn):
    names = {x.arg for x in fn.args.posonlyargs + fn.args.args + fn.args.kwonlyargs}
    if fn.args.vararg:
        names.add(fn.args.vararg.arg)
    if fn.args.kwarg:
        names.add(fn.args.kwarg.arg)
    glob = set()
    # the function's own scope: a closure defined in it contributes its name, not its own locals
    todo = list(fn.body)
    while todo:
        x = todo.pop()
        if isinstance(x, ast.Name) and isinstance(x.ctx, (ast.Store, ast.Del)):
            names.add(x.id)
        elif isinstance(x, ast.ExceptHandler) and x.name:
            names.add(x.name)
        elif isinstance(x, (ast.Global, ast.Nonlocal)):
            glob |= set(x.names)
        elif isinstance(x, FuncT + (ast.ClassDef,)):
            names.add(x.name)
            todo.extend(x.decorator_list)
            if isinstance(x, FuncT):
                todo.extend(d for d in x.args.defaults + x.args.kw_defaults if d is not None)
            continue
        elif isinstance(x, ast.Lambda):
            continue
        todo.extend(ast.iter_child_nodes(x))
    return names - glob


class _Ret(ast.NodeTransformer):
    """`return E` -> `target = E; InlineExit`"""
    def __init__(self, target):
        self.target = target
        self.n = 0

    def visit_Return(self, n):
        self.n += 1
        out = []
        if self.target is not None:
            out.append(ast.copy_location(ast.Assign(targets=[_tgt(self.target)],
                                                    value=n.value if n.value is not None else ast.Constant(None)), n))
        elif n.value is not None and not isinstance(n.value, (ast.Constant, ast.Name)):
            out.append(ast.copy_location(ast.Expr(value=n.value), n))
        out.append(ast.copy_location(InlineExit(), n))
        return out

    def visit_FunctionDef(self, n):
        return n

    visit_AsyncFunctionDef = visit_Lambda = visit_ClassDef = visit_FunctionDef


def _expand(P, helper, call, target, counter, at):
    """statements replacing `target = helper(args)`; None if the argument binding is not simple"""
    fn = copy.deepcopy(helper.node)
    a = fn.args
    if a.vararg or a.kwarg or any(isinstance(x, ast.Starred) for x in call.args) or any(k.arg is None for k in call.keywords):
        return None
    if any(ast.unparse(d) not in ('staticmethod', 'classmethod') for d in fn.decorator_list):
        return None         # a decorated helper (memoised, context manager, property ..) does not mean what its body says at the call site
    params = [x.arg for x in a.posonlyargs + a.args]
    npos = len(params)
    deco = [ast.unparse(d) for d in fn.decorator_list]
    actual = list(call.args)
    if isinstance(call.func, ast.Attribute) and params and 'staticmethod' not in deco and helper.cls:
        actual = [call.func.value] + actual          # bound receiver
    kw = {k.arg: k.value for k in call.keywords}
    defaults = dict(zip(params[len(params) - len(a.defaults):], a.defaults))
    # keyword-only parameters are bound by keyword (or their default) after the positional ones
    for x_, d_ in zip(a.kwonlyargs, a.kw_defaults):
        params.append(x_.arg)
        if d_ is not None:
            defaults[x_.arg] = d_
    binds = []
    for i, p in enumerate(params):
        if i < len(actual) and i < npos:
            binds.append((p, actual[i]))
        elif p in kw:
            binds.append((p, kw[p]))
        elif p in defaults:
            binds.append((p, defaults[p]))
        else:
            return None
    if len(actual) > npos:
        return None
    sfx = f'__h{counter}'
    ren = {n: n + sfx for n in _locals_of(fn)}
    # a parameter bound to the same plain name (self -> self) keeps its name: no copy needed
    keep = {p for (p, v) in binds if isinstance(v, ast.Name) and v.id == p and not any(
        isinstance(x, ast.Name) and x.id == p and isinstance(x.ctx, ast.Store) for x in ast.walk(fn))}
    for p in keep:
        ren.pop(p, None)
    # a parameter the helper never re-binds, given a plain local of the caller, is that local (no copy): safe because the only
    # assignments the expansion makes to caller variables are the result assignments, each followed by the exit of the expansion
    stored = {x.id for x in ast.walk(fn) if isinstance(x, ast.Name) and isinstance(x.ctx, (ast.Store, ast.Del))}
    free = {x.id for x in ast.walk(fn) if isinstance(x, ast.Name)} - set(ren) - keep
    direct = set()
    for (p, v) in binds:
        if p not in keep and isinstance(v, ast.Name) and p not in stored and v.id not in free and v.id not in ren.values():
            ren[p] = v.id
            direct.add(p)
    keep = keep | direct
    body = [s for s in fn.body if not (isinstance(s, ast.Expr) and isinstance(s.value, ast.Constant) and isinstance(s.value.value, str))]
    body = [_Rename(ren).visit(s) for s in body]
    pre = [ast.copy_location(ast.Assign(targets=[ast.Name(id=ren.get(p, p), ctx=ast.Store())], value=v), at) for (p, v) in binds if p not in keep]
    if target == '<return>':
        # `return helper(..)`: the helper's own returns are the caller's returns
        out = pre + body
        if _falls_through(body):
            out.append(ast.copy_location(ast.Return(value=ast.Constant(None)), at))
        for s_ in out:
            ast.fix_missing_locations(s_)
        return out
    body = _return_last(body)
    nret = sum(1 for x in _walk_own(body) if isinstance(x, ast.Return))
    if nret <= 1 and body and isinstance(body[-1], ast.Return) or nret == 0:
        last = body[-1] if body and isinstance(body[-1], ast.Return) else None
        stmts = pre + (body[:-1] if last is not None else body)
        val = last.value if last is not None and last.value is not None else ast.Constant(None)
        if target is not None:
            stmts.append(ast.copy_location(ast.Assign(targets=[_tgt(target)], value=val), at))
            stmts = _merge_results(stmts, pre, target, val, sfx)
        elif last is not None and last.value is not None and not isinstance(last.value, (ast.Constant, ast.Name)):
            stmts.append(ast.copy_location(ast.Expr(value=last.value), at))
        out = stmts
    else:
        tr = _Ret(target)
        nb = []
        for s in body:
            r = tr.visit(s)
            nb += r if isinstance(r, list) else [r]
        if target is not None and _falls_through(nb):
            nb.append(ast.copy_location(ast.Assign(targets=[_tgt(target)], value=ast.Constant(None)), at))
        if nb and isinstance(nb[-1], InlineExit):
            nb.pop()        # falling off the end of the block is the same exit
        nb = _simplify_block(nb)
        out = pre + ([ast.copy_location(InlineBlock(body=nb), at)] if any(isinstance(x, InlineExit) for s_ in nb for x in ast.walk(s_)) else nb)
    for s in out:
        ast.fix_missing_locations(s)
    return out


def _return_last(body):
    """`PRE; if t: B..; return X` followed by a tail that only raises is `PRE; if not t: TAIL` followed by `B..; return X`: the shape
    with the single return at the end (the canonical form may have made the shorter leaving branch the guard)"""
    for i, s in enumerate(body):
        if isinstance(s, ast.If) and not s.orelse and s.body and isinstance(s.body[-1], ast.Return) and i + 1 < len(body):
            tail = body[i + 1:]
            if not any(isinstance(x, ast.Return) for x in _walk_own(tail)) and isinstance(tail[-1], ast.Raise) \
                    and not any(isinstance(x, ast.Return) for x in _walk_own(body[:i])) \
                    and sum(1 for x in _walk_own(s.body) if isinstance(x, ast.Return)) == 1:
                t = s.test
                neg = t.operand if isinstance(t, ast.UnaryOp) and isinstance(t.op, ast.Not) else ast.copy_location(ast.UnaryOp(op=ast.Not(), operand=t), t)
                return body[:i] + [ast.copy_location(ast.If(test=neg, body=tail, orelse=[]), s)] + _return_last(s.body)
            break
    return body


def _simplify_block(nb):
    """tidy an expanded body: `x = x` dropped; `if t: InlineExit` followed by REST (which has no exit) is `if not t: REST`"""
    def noop(s_):
        return isinstance(s_, ast.Assign) and len(s_.targets) == 1 and isinstance(s_.targets[0], ast.Name) and isinstance(s_.value, ast.Name) \
            and s_.targets[0].id == s_.value.id

    def clean(stmts):
        out = []
        for s_ in stmts:
            if noop(s_):
                continue
            for fld in ('body', 'orelse', 'finalbody'):
                b = getattr(s_, fld, None)
                if isinstance(b, list) and b and isinstance(b[0], ast.stmt) and not isinstance(s_, FuncT + (ast.ClassDef,)):
                    setattr(s_, fld, clean(b) or ([ast.copy_location(InlineExit(), s_)] if False else [ast.copy_location(ast.Pass(), s_)]))
            out.append(s_)
        return out
    nb = clean(nb)
    # an `if` whose body became only `pass` + exit
    for s_ in nb:
        if isinstance(s_, ast.If):
            s_.body = [x for x in s_.body if not isinstance(x, ast.Pass)] or [ast.copy_location(ast.Pass(), s_)]
    if nb and isinstance(nb[0], ast.If) and not nb[0].orelse and len(nb[0].body) == 1 and isinstance(nb[0].body[0], InlineExit):
        rest = nb[1:]
        if rest and not any(isinstance(x, InlineExit) for s_ in rest for x in ast.walk(s_)):
            t = nb[0].test
            neg = t.operand if isinstance(t, ast.UnaryOp) and isinstance(t.op, ast.Not) else ast.copy_location(ast.UnaryOp(op=ast.Not(), operand=t), t)
            return [ast.copy_location(ast.If(test=neg, body=rest, orelse=[]), nb[0])]
    return nb


def _tgt(t):
    return ast.Name(id=t, ctx=ast.Store()) if isinstance(t, str) else copy.deepcopy(t)


def _merge_results(stmts, pre, target, val, sfx):
    """flat expansion `p__h = p (copy-in) ... body ... a, b = (x__h, p__h)`: the helper's locals that only carry a value back to a
    caller variable take that variable's name (and a parameter copied in from the same variable needs no copy at all)"""
    lhs = [ast.Name(id=target, ctx=ast.Store())] if isinstance(target, str) else (list(target.elts) if isinstance(target, ast.Tuple) else [target])
    rhs = [val] if len(lhs) == 1 else (list(val.elts) if isinstance(val, ast.Tuple) and len(val.elts) == len(lhs) else None)
    if rhs is None:
        return stmts
    body = stmts[:-1]
    m = {}
    copyin = {}
    for p_ in pre:
        if isinstance(p_.value, ast.Name):
            copyin[p_.targets[0].id] = p_.value.id
    used_in_body = {x.id for s_ in body for x in ast.walk(s_) if isinstance(x, ast.Name)}
    for l, r in zip(lhs, rhs):
        if not (isinstance(l, ast.Name) and isinstance(r, ast.Name) and r.id.endswith(sfx)):
            continue
        src = copyin.get(r.id)
        if src is not None and src != l.id:
            continue                                   # copied in from one variable, handed back to another
        others = used_in_body - {r.id}
        if l.id in others and not (src == l.id and sum(1 for s_ in body for x in ast.walk(s_) if isinstance(x, ast.Name) and x.id == l.id) == 1):
            continue                                   # the caller variable is read elsewhere in the expansion
        if l.id in m.values():
            continue
        m[r.id] = l.id
    if not m:
        return stmts
    out = []
    for s_ in body:
        if isinstance(s_, ast.Assign) and len(s_.targets) == 1 and isinstance(s_.targets[0], ast.Name) and s_.targets[0].id in m \
                and isinstance(s_.value, ast.Name) and s_.value.id == m[s_.targets[0].id] and s_ in pre:
            continue                                   # copy-in of the same variable
        out.append(_Rename(m).visit(s_))
    keep_l, keep_r = [], []
    for l, r in zip(lhs, rhs):
        if isinstance(r, ast.Name) and r.id in m and isinstance(l, ast.Name) and m[r.id] == l.id:
            continue
        keep_l.append(l)
        keep_r.append(_Rename(m).visit(r))
    if keep_l:
        last = stmts[-1]
        if len(keep_l) == 1:
            out.append(ast.copy_location(ast.Assign(targets=[keep_l[0]], value=keep_r[0]), last))
        else:
            out.append(ast.copy_location(ast.Assign(targets=[ast.Tuple(elts=keep_l, ctx=ast.Store())], value=ast.Tuple(elts=keep_r, ctx=ast.Load())), last))
    return out


def _falls_through(stmts):
    """can control run off the end of this statement list?"""
    if not stmts:
        return True
    s = stmts[-1]
    if isinstance(s, (ast.Return, ast.Raise, ast.Continue, ast.Break, InlineExit)):
        return False
    if isinstance(s, ast.If):
        return _falls_through(s.body) or _falls_through(s.orelse)
    if isinstance(s, ast.Try):
        if s.finalbody and not _falls_through(s.finalbody):
            return False
        normal = _falls_through(s.body) and (_falls_through(s.orelse) if s.orelse else True)
        return normal or any(_falls_through(h.body) for h in s.handlers)
    if isinstance(s, (ast.With, ast.AsyncWith)):
        return _falls_through(s.body)
    if isinstance(s, ast.While) and isinstance(s.test, ast.Constant) and s.test.value is True:
        return any(isinstance(x, ast.Break) for x in ast.walk(s))
    return True


def _walk_own(stmts):
    todo = list(stmts)
    while todo:
        n = todo.pop()
        yield n
        for c in ast.iter_child_nodes(n):
            if not isinstance(c, FuncT + (ast.Lambda, ast.ClassDef)):
                todo.append(c)


def _simple(e):
    return all(isinstance(x, (ast.Name, ast.Constant, ast.Attribute, ast.Load, ast.Store, ast.Tuple, ast.List, ast.keyword, ast.Subscript, ast.Slice,
                              ast.BinOp, ast.operator, ast.UnaryOp, ast.unaryop, ast.Compare, ast.cmpop, ast.JoinedStr, ast.FormattedValue))
               for x in ast.walk(e))


def _head_exprs(s):
    if isinstance(s, (ast.Assign, ast.AnnAssign, ast.AugAssign, ast.Return, ast.Expr)) and getattr(s, 'value', None) is not None:
        return ['value']
    if isinstance(s, ast.If):
        return ['test']
    if isinstance(s, (ast.For, ast.AsyncFor)):
        return ['iter']
    if isinstance(s, (ast.With, ast.AsyncWith)) and s.items:
        return ['<with0>']
    return []


def _head_get(s, fld):
    return s.items[0].context_expr if fld == '<with0>' else getattr(s, fld)


def _head_set(s, fld, v):
    if fld == '<with0>':
        s.items[0].context_expr = v
    else:
        setattr(s, fld, v)


def _first_helper_call(P, f, expr, new):
    """(parent, field, index, node, is_await, qual) of the first call to a new helper that `expr` evaluates unconditionally and
    before any other call"""
    found = []

    def visit(node, parent, field, idx, cond):
        if isinstance(node, (ast.Lambda, ast.ListComp, ast.SetComp, ast.DictComp, ast.GeneratorExp)):
            return
        if isinstance(node, ast.BoolOp):
            for i, v in enumerate(node.values):
                visit(v, node, 'values', i, cond or i > 0)
            return
        if isinstance(node, ast.IfExp):
            visit(node.test, node, 'test', None, cond)
            visit(node.body, node, 'body', None, True)
            visit(node.orelse, node, 'orelse', None, True)
            return
        if isinstance(node, ast.Await) and isinstance(node.value, ast.Call):
            c = node.value
            for i, a_ in enumerate(c.args):
                visit(a_, c, 'args', i, cond)
            for k in c.keywords:
                visit(k.value, k, 'value', None, cond)
            found.append((parent, field, idx, node, True, c, cond))
            return
        if isinstance(node, ast.Call):
            visit(node.func, node, 'func', None, cond)
            for i, a_ in enumerate(node.args):
                visit(a_, node, 'args', i, cond)
            for k in node.keywords:
                visit(k.value, k, 'value', None, cond)
            found.append((parent, field, idx, node, False, node, cond))
            return
        for fld, val in ast.iter_fields(node):
            if isinstance(val, list):
                for i, x in enumerate(val):
                    if isinstance(x, ast.AST):
                        visit(x, node, fld, i, cond)
            elif isinstance(val, ast.AST):
                visit(val, node, fld, None, cond)
    visit(expr, None, None, None, False)
    # evaluation order = order of completion of the calls (arguments first): `found` is already in that order
    # calls evaluated before a helper call are no obstacle when they are the helper call's own arguments (bound first, in order)
    first_helper = None
    for ent in found:
        t = _resolve(P, f, ent[5])
        if isinstance(t, str) and t in new and not ent[6]:
            first_helper = ent[5]
            break
    inside = {id(x) for x in ast.walk(first_helper)} if first_helper is not None else set()
    for (parent, field, idx, node, is_await, c, cond) in found:
        t = _resolve(P, f, c)
        if c is not first_helper and id(c) in inside:
            continue
        if isinstance(t, str) and t in new and not cond:
            h = P.funcs[t]
            if isinstance(h.node, ast.Lambda):
                return None
            if isinstance(h.node, ast.AsyncFunctionDef) != is_await:
                return None
            if any(isinstance(x, (ast.Yield, ast.YieldFrom)) for x in _walk_own(h.node.body)):
                return None
            return (parent, field, idx, node, is_await, c, t)
        # any other call evaluated earlier may have effects: stop unless it is harmless
        fnm = c.func.id if isinstance(c.func, ast.Name) else (c.func.attr if isinstance(c.func, ast.Attribute) else '')
        if fnm not in ('len', 'isinstance', 'int', 'bytes', 'str', 'timestamp', 'get_running_loop', 'create_future', 'normalize', 'to_str'):
            return None
    return None


def _process_block(P, f, stmts, new, state):
    out = []
    for s in stmts:
        # recurse first
        for fld in ('body', 'orelse', 'finalbody'):
            b = getattr(s, fld, None)
            if isinstance(b, list) and b and isinstance(b[0], ast.stmt) and not isinstance(s, FuncT + (ast.ClassDef,)):
                setattr(s, fld, _process_block(P, f, b, new, state))
        if isinstance(s, ast.Try):
            for h in s.handlers:
                h.body = _process_block(P, f, h.body, new, state)
        # a list comprehension that calls a new helper is spelled as a loop first, so that the call is at statement level
        if isinstance(s, (ast.Return, ast.Assign)) and isinstance(getattr(s, 'value', None), ast.ListComp) and len(s.value.generators) == 1 \
                and not s.value.generators[0].is_async and any(
                    isinstance(c_, ast.Call) and isinstance(_resolve(P, f, c_), str) and _resolve(P, f, c_) in new for c_ in ast.walk(s.value)) \
                and (isinstance(s, ast.Return) or (len(s.targets) == 1 and isinstance(s.targets[0], (ast.Name, ast.Attribute)))):
            g = s.value.generators[0]
            x = s.targets[0].id if isinstance(s, ast.Assign) and isinstance(s.targets[0], ast.Name) else f'ret__c{s.lineno}'
            inner = ast.Expr(value=ast.Call(func=ast.Attribute(value=ast.Name(id=x, ctx=ast.Load()), attr='append', ctx=ast.Load()), args=[s.value.elt], keywords=[]))
            for c_ in reversed(g.ifs):
                inner = ast.If(test=c_, body=[inner], orelse=[])
            loop = ast.copy_location(ast.For(target=g.target, iter=g.iter, body=[inner], orelse=[], type_comment=None), s)
            init = ast.copy_location(ast.Assign(targets=[ast.Name(id=x, ctx=ast.Store())], value=ast.List(elts=[], ctx=ast.Load())), s)
            ast.fix_missing_locations(loop)
            ast.fix_missing_locations(init)
            out.append(init)
            out += _process_block(P, f, [loop], new, state)
            if isinstance(s, ast.Return):
                out.append(ast.copy_location(ast.Return(value=ast.copy_location(ast.Name(id=x, ctx=ast.Load()), s)), s))
            elif isinstance(s.targets[0], ast.Attribute):
                out.append(ast.copy_location(ast.Assign(targets=[s.targets[0]], value=ast.copy_location(ast.Name(id=x, ctx=ast.Load()), s)), s))
            continue
        # `yield from helper(..)` as a statement, helper a new plain generator function: the helper's body (its yields included) runs in place
        if isinstance(s, ast.Expr) and isinstance(s.value, ast.YieldFrom) and isinstance(s.value.value, ast.Call):
            c_ = s.value.value
            t_ = _resolve(P, f, c_)
            if isinstance(t_, str) and t_ in new and isinstance(P.funcs[t_].node, ast.FunctionDef) \
                    and any(isinstance(x, (ast.Yield, ast.YieldFrom)) for x in _walk_own(P.funcs[t_].node.body)) \
                    and not any(isinstance(x, ast.Call) and isinstance(_resolve(P, f, x), str) and _resolve(P, f, x) in new for a_ in c_.args for x in ast.walk(a_)):
                state['n'] += 1
                exp = _expand(P, P.funcs[t_], c_, None, state['n'], s)
                if exp is not None:
                    exp = _process_block(P, P.funcs[t_], exp, new - {t_}, state) if state['depth'] < 3 else exp
                    out += exp
                    state['expanded'].append((f.qual, t_))
                    continue
        pre = []
        for _round in range(6):
            hit = None
            for fld in _head_exprs(s):
                e = _head_get(s, fld)
                hit = _first_helper_call(P, f, e, new)
                if hit:
                    hit = (fld,) + hit
                    break
            if not hit:
                break
            (fld, parent, pfield, idx, node, is_await, c, t) = hit
            state['n'] += 1
            direct_assign = isinstance(s, ast.Assign) and parent is None and len(s.targets) == 1 and (isinstance(s.targets[0], ast.Name) or (
                isinstance(s.targets[0], ast.Tuple) and all(isinstance(e_, ast.Name) for e_ in s.targets[0].elts)))
            direct_expr = isinstance(s, ast.Expr) and parent is None
            direct_return = isinstance(s, ast.Return) and parent is None and not any(
                type(x).__name__ == 'InlineBlock' for x in ast.walk(ast.Module(body=stmts, type_ignores=[]))) and state.get('in_block', 0) == 0
            tgt = (s.targets[0].id if isinstance(s.targets[0], ast.Name) else s.targets[0]) if direct_assign else (
                None if direct_expr else ('<return>' if direct_return else f'ret__h{state["n"]}'))
            exp = _expand(P, P.funcs[t], c, tgt, state['n'], s)
            if exp is None:
                break
            # helpers may call helpers
            exp = _process_block(P, P.funcs[t], exp, new - {t}, state) if state['depth'] < 3 else exp
            pre += exp
            state['expanded'].append((f.qual, t))
            if direct_assign or direct_expr or direct_return:
                s = None
                break
            repl = ast.copy_location(ast.Name(id=tgt, ctx=ast.Load()), node)
            if parent is None:
                _head_set(s, fld, repl)
            elif idx is None:
                setattr(parent, pfield, repl)
            else:
                getattr(parent, pfield)[idx] = repl
        out += pre
        if s is not None:
            out.append(s)
    return out


def baseline_constants():
    p = os.path.join(HERE, 'baseline_funcs.json')
    if not os.path.exists(p):
        return None
    return set(json.load(open(p)).get('constants', []))


def _literalish(e):
    if isinstance(e, ast.Constant):
        return True
    if isinstance(e, (ast.Tuple, ast.List, ast.Set)):
        return all(_literalish(x) for x in e.elts)
    if isinstance(e, ast.Dict):
        return all(k is not None and _literalish(k) and _literalish(v) for k, v in zip(e.keys, e.values))
    if isinstance(e, ast.Name):
        return True          # another module-level name (a class, a builtin, another constant)
    if isinstance(e, ast.Attribute):
        b = e
        while isinstance(b, ast.Attribute):
            b = b.value
        return isinstance(b, ast.Name)
    if isinstance(e, ast.UnaryOp):
        return _literalish(e.operand)
    if isinstance(e, ast.BinOp):
        return _literalish(e.left) and _literalish(e.right)
    if isinstance(e, ast.Call) and isinstance(e.func, ast.Name) and e.func.id == 'frozenset' and len(e.args) == 1:
        return _literalish(e.args[0])
    return False


class _ConstSubst(ast.NodeTransformer):
    def __init__(self, m):
        self.m = m

    def visit_Name(self, n):
        if isinstance(n.ctx, ast.Load) and n.id in self.m:
            return ast.copy_location(copy.deepcopy(self.m[n.id]), n)
        return n


class _FoldInts(ast.NodeTransformer):
    def visit_BinOp(self, n):
        self.generic_visit(n)
        if isinstance(n.left, ast.Constant) and isinstance(n.right, ast.Constant) and isinstance(n.left.value, int) and isinstance(n.right.value, int) \
                and not isinstance(n.left.value, bool) and not isinstance(n.right.value, bool):
            ops = {ast.Add: lambda a, b: a + b, ast.Sub: lambda a, b: a - b, ast.Mult: lambda a, b: a * b, ast.LShift: lambda a, b: a << b if b < 64 else None}
            f = ops.get(type(n.op))
            if f is not None and f(n.left.value, n.right.value) is not None:
                return ast.copy_location(ast.Constant(f(n.left.value, n.right.value)), n)
        return n


def inline_new_constants(P):
    """module-level names bound once to a literal-like value that are not part of the reference tree (sa/baseline_funcs.json)
    are read back as their value inside the functions of that module (`_MARKER = 0xFD`, `_ACCEPTING = (A.X, A.Y)`)"""
    base = baseline_constants()
    if base is None:
        return 0
    n = 0
    for m, (path, tree, src) in P.mods.items():
        cands, stores = {}, {}
        for s in tree.body:
            tgt = None
            if isinstance(s, ast.Assign) and len(s.targets) == 1 and isinstance(s.targets[0], ast.Name):
                tgt, val = s.targets[0].id, s.value
            elif isinstance(s, ast.AnnAssign) and isinstance(s.target, ast.Name) and s.value is not None:
                tgt, val = s.target.id, s.value
            if tgt:
                stores[tgt] = stores.get(tgt, 0) + 1
                if f'{m}.{tgt}' not in base and _literalish(val):
                    cands[tgt] = val
        cands = {k: v for k, v in cands.items() if stores.get(k) == 1}
        if not cands:
            continue
        # constants defined from earlier new constants, and integer arithmetic on them, are folded
        done = {}
        for k, v in cands.items():
            v = _FoldInts().visit(_ConstSubst(done).visit(copy.deepcopy(v)))
            done[k] = v
        cands = done
        for fn in [x for x in ast.walk(tree) if isinstance(x, FuncT)]:
            bound = _locals_of(fn) | {nm for x in ast.walk(fn) if isinstance(x, ast.Global) for nm in x.names}
            mm = {k: v for k, v in cands.items() if k not in bound}
            if mm and any(isinstance(x, ast.Name) and x.id in mm for x in ast.walk(fn)):
                _ConstSubst(mm).visit(fn)
                _FoldInts().visit(fn)
                n += 1
                from .canon import _Desugar
                _Desugar().visit(fn)            # (a bool-keyed table subscripted by a test, a slice object ..)
                ast.fix_missing_locations(fn)
                # a table that is now a display may be one of the shapes the canonical form reads back (a loop over constant rows)
                if not isinstance(fn, ast.Lambda) and any(isinstance(x, ast.For) and isinstance(x.iter, (ast.Tuple, ast.List)) for x in ast.walk(fn)):
                    from .canon import canonicalise_function
                    canonicalise_function(fn)
    n += _inline_new_class_constants(P, base)
    return n


class _AttrConstSubst(ast.NodeTransformer):
    def __init__(self, recv, m):
        self.recv, self.m = recv, m

    def visit_Attribute(self, n):
        self.generic_visit(n)
        if isinstance(n.ctx, ast.Load) and isinstance(n.value, ast.Name) and n.value.id in self.recv and n.attr in self.m:
            return ast.copy_location(copy.deepcopy(self.m[n.attr]), n)
        return n


def _inline_new_class_constants(P, base):
    """the same for class-level names (`class C: _LEN = 32`) that are not part of the reference tree: `self._LEN` / `cls._LEN` /
    `C._LEN` inside the methods of C read as the value, unless the class (or a method) stores that attribute elsewhere"""
    n = 0
    for (m, c), cls in P.classes.items():
        cands, stores = {}, {}
        for s in cls.body:
            tgt = None
            if isinstance(s, ast.Assign) and len(s.targets) == 1 and isinstance(s.targets[0], ast.Name):
                tgt, val = s.targets[0].id, s.value
            elif isinstance(s, ast.AnnAssign) and isinstance(s.target, ast.Name) and s.value is not None and 'ClassVar' in ast.unparse(s.annotation):
                tgt, val = s.target.id, s.value
            if tgt:
                stores[tgt] = stores.get(tgt, 0) + 1
                if f'{m}.{c}.{tgt}' not in base and _literalish(val) and tgt.upper() == tgt:
                    cands[tgt] = val
        cands = {k: v for k, v in cands.items() if stores.get(k) == 1}
        if not cands:
            continue
        # stored as an attribute anywhere in the module (instance shadowing, later rebinding): leave alone
        tree = P.mods[m][1]
        shadow = {x.attr for x in ast.walk(tree) if isinstance(x, ast.Attribute) and isinstance(x.ctx, (ast.Store, ast.Del))}
        cands = {k: v for k, v in cands.items() if k not in shadow}
        # a subclass that rebinds the name changes what `self.X` means
        for (m2, c2), cls2 in P.classes.items():
            if (m2, c2) != (m, c) and (m, c) in P.mro(m2, c2):
                for s in cls2.body:
                    for t in (s.targets if isinstance(s, ast.Assign) else [s.target] if isinstance(s, ast.AnnAssign) else []):
                        if isinstance(t, ast.Name):
                            cands.pop(t.id, None)
        if not cands:
            continue
        done = {}
        for k, v in cands.items():
            done[k] = _FoldInts().visit(_ConstSubst(done).visit(copy.deepcopy(v)))
        for fn in [x for x in cls.body if isinstance(x, FuncT)]:
            first = fn.args.args[0].arg if fn.args.args else None
            recv = {c} | ({first} if first in ('self', 'cls') else set())
            if any(isinstance(x, ast.Attribute) and isinstance(x.value, ast.Name) and x.value.id in recv and x.attr in done for x in ast.walk(fn)):
                _AttrConstSubst(recv, done).visit(fn)
                _FoldInts().visit(fn)
                n += 1
    return n


def _dataclass_fields(P, m, c):
    cls = P.classes.get((m, c))
    named_tuple = cls is not None and any(ast.unparse(b).split('.')[-1] == 'NamedTuple' for b in cls.bases)
    if cls is None or not (any('dataclass' in ast.unparse(d) for d in cls.decorator_list) or named_tuple):
        return None
    if P.find_member(m, c, '__init__') or P.find_member(m, c, '__post_init__'):
        return None
    names = []
    for (mm, cc) in reversed(P.mro(m, c)):
        for s in P.classes[(mm, cc)].body:
            if isinstance(s, ast.AnnAssign) and isinstance(s.target, ast.Name) and 'ClassVar' not in ast.unparse(s.annotation):
                if s.target.id not in names:
                    names.append(s.target.id)
    return names


def spell_out_dataclass_construction(P):
    """`x = DC(a=1, b=2)` on a plain local, DC a dataclass without custom __init__ / __post_init__, is `x = DC(); x.a = 1; x.b = 2`
    (and `recv.extend(X)` as a statement is the loop of appends): one spelling for filling in a record"""
    n = 0
    for q, f in P.funcs.items():
        if isinstance(f.node, ast.Lambda):
            continue

        def block(stmts):
            nonlocal n
            out = []
            for s in stmts:
                for fld in ('body', 'orelse', 'finalbody'):
                    b = getattr(s, fld, None)
                    if isinstance(b, list) and b and isinstance(b[0], ast.stmt) and not isinstance(s, FuncT + (ast.ClassDef,)):
                        setattr(s, fld, block(b))
                if isinstance(s, ast.Try):
                    for h in s.handlers:
                        h.body = block(h.body)
                if isinstance(s, ast.Assign) and len(s.targets) == 1 and isinstance(s.targets[0], ast.Name) and isinstance(s.value, ast.Call) \
                        and (s.value.args or s.value.keywords) and not any(isinstance(a, ast.Starred) for a in s.value.args) \
                        and not any(k.arg is None for k in s.value.keywords):
                    t = _resolve(P, f, s.value)
                    flds = _dataclass_fields(P, t[1], t[2]) if isinstance(t, tuple) else None
                    if flds and len(s.value.args) <= len(flds) and all(k.arg in flds for k in s.value.keywords):
                        x = s.targets[0].id
                        binds = list(zip(flds, s.value.args)) + [(k.arg, k.value) for k in s.value.keywords]
                        if not any(isinstance(y, ast.Name) and y.id == x for (_, v) in binds for y in ast.walk(v)):
                            out.append(ast.copy_location(ast.Assign(targets=[s.targets[0]], value=ast.copy_location(
                                ast.Call(func=s.value.func, args=[], keywords=[]), s.value)), s))
                            for (nm, v) in binds:
                                st = ast.copy_location(ast.Assign(targets=[ast.Attribute(value=ast.Name(id=x, ctx=ast.Load()), attr=nm, ctx=ast.Store())], value=v), v)
                                ast.fix_missing_locations(st)
                                out.append(st)
                            n += 1
                            continue
                if isinstance(s, ast.Expr) and isinstance(s.value, ast.Call) and isinstance(s.value.func, ast.Attribute) and s.value.func.attr == 'extend' \
                        and len(s.value.args) == 1 and not s.value.keywords and not isinstance(s.value.args[0], (ast.List, ast.Tuple)):
                    c = s.value
                    loop = ast.copy_location(ast.For(target=ast.Name(id=f'elt__{c.lineno}', ctx=ast.Store()), iter=c.args[0], body=[ast.Expr(value=ast.Call(
                        func=ast.Attribute(value=c.func.value, attr='append', ctx=ast.Load()), args=[ast.Name(id=f'elt__{c.lineno}', ctx=ast.Load())], keywords=[]))],
                        orelse=[], type_comment=None), s)
                    ast.fix_missing_locations(loop)
                    out.append(loop)
                    n += 1
                    continue
                out.append(s)
            return out
        f.node.body = block(f.node.body)
    return n


class _TableSubst(ast.NodeTransformer):
    def __init__(self, m):
        self.m = m

    def visit_Name(self, n):
        if isinstance(n.ctx, ast.Load) and n.id in self.m:
            v = copy.deepcopy(self.m[n.id])
            v._from_table = True
            return ast.copy_location(v, n)
        return n

    def visit_FunctionDef(self, n):
        return n

    visit_AsyncFunctionDef = visit_Lambda = visit_ClassDef = visit_FunctionDef


def _const_truth(e):
    """truth value of a test that is decided by a substituted table value, else None"""
    if isinstance(e, ast.UnaryOp) and isinstance(e.op, ast.Not):
        v = _const_truth(e.operand)
        return None if v is None else not v
    if isinstance(e, ast.Compare) and len(e.ops) == 1 and isinstance(e.ops[0], (ast.Is, ast.IsNot)) and isinstance(e.comparators[0], ast.Constant) \
            and e.comparators[0].value is None and getattr(e.left, '_from_table', False):
        l = e.left
        isnone = isinstance(l, ast.Constant) and l.value is None
        known = isinstance(l, (ast.Constant, ast.Tuple, ast.List, ast.Dict, ast.Set))
        if known:
            return isnone if isinstance(e.ops[0], ast.Is) else not isnone
    if getattr(e, '_from_table', False) and isinstance(e, (ast.Constant, ast.Tuple, ast.List, ast.Dict, ast.Set)):
        if isinstance(e, ast.Constant):
            return bool(e.value)
        return bool(e.elts if not isinstance(e, ast.Dict) else e.keys)
    return None


def _fold_block(stmts):
    """prune tests decided by substituted table values; drop what follows a terminator; read `a, b = (X, Y)` of substituted values through"""
    out = []
    stmts = list(stmts)
    i = 0
    while i < len(stmts):
        s = stmts[i]
        i += 1
        if isinstance(s, ast.If):
            v = _const_truth(s.test)
            if v is not None:
                stmts[i:i] = s.body if v else s.orelse
                continue
            s.body = _fold_block(s.body) or [ast.copy_location(ast.Pass(), s)]
            s.orelse = _fold_block(s.orelse)
        elif isinstance(s, (ast.For, ast.AsyncFor, ast.While, ast.With, ast.AsyncWith)):
            s.body = _fold_block(s.body) or [ast.copy_location(ast.Pass(), s)]
        elif isinstance(s, ast.Try):
            s.body = _fold_block(s.body) or [ast.copy_location(ast.Pass(), s)]
        elif isinstance(s, ast.Assign) and len(s.targets) == 1 and getattr(s.value, '_from_table', False):
            t, v = s.targets[0], s.value
            m = None
            if isinstance(t, ast.Name) and _literalish(v):
                m = {t.id: v}
            elif isinstance(t, ast.Tuple) and isinstance(v, ast.Tuple) and len(t.elts) == len(v.elts) and all(isinstance(x, ast.Name) for x in t.elts) \
                    and all(_literalish(x) for x in v.elts):
                m = {x.id: y for x, y in zip(t.elts, v.elts)}
            rest = stmts[i:]
            if m and not any(isinstance(x, ast.Name) and x.id in m and isinstance(x.ctx, (ast.Store, ast.Del)) for r in rest for x in ast.walk(r)):
                stmts[i:] = [_TableSubst(m).visit(r) for r in rest]
                continue
        out.append(s)
        if isinstance(s, (ast.Return, ast.Raise, ast.Continue, ast.Break)):
            break
    return out


def specialise_tables(P):
    """`T = {k1: v1, k2: v2}.get(K, d)` (or `{..}[K]`) followed by REST, the table being a literal (typically a new module / class constant
    already read back as its value), is the decision chain `if K == k1: REST[T:=v1] elif K == k2: REST[T:=v2] else: REST[T:=d]` - the shape
    table-driven code has when written out. Applied when K is a plain name / attribute chain, T is not re-bound in REST and REST is small."""
    n = 0
    for q, f in P.funcs.items():
        if isinstance(f.node, ast.Lambda):
            continue
        changed = [False]
        stored_anywhere = {x.id for x in ast.walk(f.node) if isinstance(x, ast.Name) and isinstance(x.ctx, (ast.Store, ast.Del))}

        def lookup(v):
            """(dict display, key expr, default expr or 'KeyError') of a table lookup"""
            if isinstance(v, ast.Subscript) and isinstance(v.value, ast.Dict):
                return v.value, v.slice, 'KeyError'
            if isinstance(v, ast.Call) and isinstance(v.func, ast.Attribute) and v.func.attr == 'get' and isinstance(v.func.value, ast.Dict) \
                    and 1 <= len(v.args) <= 2 and not v.keywords:
                return v.func.value, v.args[0], (v.args[1] if len(v.args) == 2 else ast.Constant(None))
            return None

        def block(stmts):
            stmts = list(stmts)
            for i, s in enumerate(stmts):
                for fld in ('body', 'orelse', 'finalbody'):
                    b = getattr(s, fld, None)
                    if isinstance(b, list) and b and isinstance(b[0], ast.stmt) and not isinstance(s, FuncT + (ast.ClassDef,)):
                        setattr(s, fld, block(b))
                if isinstance(s, ast.Try):
                    for h in s.handlers:
                        h.body = block(h.body)
                if not (isinstance(s, ast.Assign) and len(s.targets) == 1):
                    continue
                lk = lookup(s.value)
                if lk is None:
                    continue
                D, K, dflt = lk
                t = s.targets[0]
                names = [t.id] if isinstance(t, ast.Name) else [x.id for x in t.elts] if isinstance(t, ast.Tuple) and all(isinstance(x, ast.Name) for x in t.elts) else None
                if names is None or not (1 <= len(D.keys) <= 8) or any(k is None or not _literalish(k) for k in D.keys):
                    continue
                if not all(isinstance(x, (ast.Name, ast.Attribute, ast.Load)) for x in ast.walk(K)) or any(isinstance(x, ast.Name) and x.id in names for x in ast.walk(K)):
                    continue
                vals = list(D.values) + ([] if dflt == 'KeyError' else [dflt])
                # values may only mention names the function never re-binds
                if any(isinstance(x, ast.Name) and x.id in stored_anywhere for v in vals for x in ast.walk(v)):
                    continue
                if len(names) > 1 and not all(isinstance(v, ast.Tuple) and len(v.elts) == len(names) for v in vals):
                    continue
                rest = stmts[i + 1:]
                if not rest or sum(1 for r in rest for _ in ast.walk(r)) > 120 or any(isinstance(x, FuncT + (ast.ClassDef, ast.Lambda)) for r in rest for x in ast.walk(r)):
                    continue
                if any(isinstance(x, ast.Name) and x.id in names and isinstance(x.ctx, (ast.Store, ast.Del)) for r in rest for x in ast.walk(r)):
                    continue

                def arm(v):
                    m = {names[0]: v} if len(names) == 1 else dict(zip(names, v.elts))
                    return _fold_block([_TableSubst(m).visit(copy.deepcopy(r)) for r in rest]) or [ast.copy_location(ast.Pass(), s)]
                if dflt == 'KeyError':
                    tail = [ast.copy_location(ast.Raise(exc=ast.Call(func=ast.Name(id='KeyError', ctx=ast.Load()), args=[copy.deepcopy(K)], keywords=[]), cause=None), s)]
                    tail[0]._table_miss = True      # the arm `key not in the table`: feasible only if the key can take other values
                else:
                    tail = arm(dflt)
                for k, v in reversed(list(zip(D.keys, D.values))):
                    test = ast.Compare(left=copy.deepcopy(K), ops=[ast.Eq()], comparators=[copy.deepcopy(k)])
                    tail = [ast.copy_location(ast.If(test=test, body=arm(v), orelse=tail), s)]
                for x in tail:
                    ast.fix_missing_locations(x)
                changed[0] = True
                return stmts[:i] + block(tail)
            return stmts
        f.node.body = block(f.node.body)
        if changed[0]:
            from .canon import canonicalise_function
            canonicalise_function(f.node, generated=True)
            n += 1
    return n


def _adopt_returned_closures(fn):
    """an expanded factory helper (`def make(..): def inner(..): ..; return inner`) leaves `def inner__hN(..): ..` and `target = inner__hN`
    in the caller: when that is the only use of the generated name and `target` has no other binding, the closure is simply defined
    under the target's name"""
    import re as _re
    gen = [x for x in ast.walk(fn) if isinstance(x, FuncT) and x is not fn and _re.search(r'__h\d+$', x.name)]
    for g in gen:
        uses = [x for x in ast.walk(fn) if isinstance(x, ast.Name) and x.id == g.name]
        if len(uses) != 1 or not isinstance(uses[0].ctx, ast.Load):
            continue
        hit = None

        def find(stmts):
            nonlocal hit
            for i, s_ in enumerate(stmts):
                if isinstance(s_, ast.Assign) and s_.value is uses[0] and len(s_.targets) == 1 and isinstance(s_.targets[0], ast.Name):
                    hit = (stmts, i)
                    return
                if isinstance(s_, FuncT + (ast.ClassDef,)):
                    continue
                for fld in ('body', 'orelse', 'finalbody'):
                    b = getattr(s_, fld, None)
                    if isinstance(b, list) and b and isinstance(b[0], ast.stmt):
                        find(b)
                for h in getattr(s_, 'handlers', []) or []:
                    find(h.body)
        find(fn.body)
        if hit is None:
            continue
        stmts, i = hit
        tname = stmts[i].targets[0].id
        others = [x for x in ast.walk(fn) if isinstance(x, ast.Name) and x.id == tname and isinstance(x.ctx, (ast.Store, ast.Del)) and x is not stmts[i].targets[0]]
        if others or any(isinstance(x, FuncT) and x.name == tname for x in ast.walk(fn) if x is not fn) \
                or any(isinstance(x, ast.arg) and x.arg == tname for x in ast.walk(fn.args)):
            continue
        g.name = tname
        del stmts[i]


_REF_LOCALS = None


def _reference_locals():
    """qualified name -> local names of the function in the reference tree"""
    global _REF_LOCALS
    if _REF_LOCALS is None:
        p = os.path.join(HERE, 'baseline_funcs.json')
        try:
            _REF_LOCALS = {q: set(v.get('names', ())) for q, v in json.load(open(p)).get('locals', {}).items()}
        except Exception:
            _REF_LOCALS = {}
    return _REF_LOCALS


def _drop_unambiguous_suffixes(fn, reference_names=()):
    """a local that came with an expanded helper (`ret__h1`) gets the helper's own name back (`ret`) when that name is free in the caller: no
    parameter, local, global or free name of the caller is called so, and no second expansion brought a local of the same base name. Rules that
    know a local of the original code by its name then read the extracted-and-expanded form like the original."""
    import re
    names = {}
    for x in ast.walk(fn):
        if isinstance(x, ast.Name):
            names.setdefault(x.id, 0)
            names[x.id] += 1
        elif isinstance(x, ast.arg):
            names.setdefault(x.arg, 0)
        elif isinstance(x, ast.ExceptHandler) and x.name:
            names.setdefault(x.name, 0)
        elif isinstance(x, (ast.FunctionDef, ast.AsyncFunctionDef)):
            names.setdefault(x.name, 0)
    by_base = {}
    for n in names:
        m = re.fullmatch(r'(.+?)__h(\d+)', n)
        if m:
            by_base.setdefault(m.group(1), []).append(n)
    ren = {}
    for base, lst in by_base.items():
        # (not a name the reference version of this function used for something: a rule may know that local by its name and meaning)
        if len(lst) == 1 and base not in names and not base.startswith('_') and base not in reference_names:
            ren[lst[0]] = base
    if not ren:
        return
    for x in ast.walk(fn):
        if isinstance(x, ast.Name) and x.id in ren:
            x.id = ren[x.id]
        elif isinstance(x, ast.ExceptHandler) and x.name in ren:
            x.name = ren[x.name]


def normalise_calls(P):
    base = baseline()
    stats = {'keywords_reordered': 0, 'expanded': [], 'functions_with_new_constants': inline_new_constants(P)}
    stats['tables_specialised'] = specialise_tables(P)
    stats['records_spelled_out'] = spell_out_dataclass_construction(P)
    for q, f in list(P.funcs.items()):
        if isinstance(f.node, ast.Lambda):
            continue
        for c in [x for x in _walk_own(f.node.body) if isinstance(x, ast.Call)]:
            before = len(c.keywords)
            _positional(P, f, c)
            stats['keywords_reordered'] += before != len(c.keywords)
    if base is not None:
        new = {q for q, f in P.funcs.items() if q not in base and not isinstance(f.node, ast.Lambda) and '#' not in q
               and not q.split('.')[-1].startswith('__')}
        new -= set(getattr(P, 'renamed_anchors', {}) or {})      # a reference function that moved is not a helper to expand
        # only helpers living next to reference code: module functions / methods / nested functions of analysed modules
        # a plain function that only forwards to a new coroutine function (`def f(x): return h(x)` with `async def h`) is, for its awaiting
        # callers, `async def f(x): return await h(x)`
        for q, f in list(P.funcs.items()):
            if q in new or not isinstance(f.node, ast.FunctionDef):
                continue
            body = [s_ for s_ in f.node.body if not (isinstance(s_, ast.Expr) and isinstance(s_.value, ast.Constant) and isinstance(s_.value.value, str))]
            if len(body) == 1 and isinstance(body[0], ast.Return) and isinstance(body[0].value, ast.Call):
                t = _resolve(P, f, body[0].value)
                if isinstance(t, str) and t in new and isinstance(P.funcs[t].node, ast.AsyncFunctionDef) and not f.node.decorator_list:
                    f.node.__class__ = ast.AsyncFunctionDef
                    body[0].value = ast.copy_location(ast.Await(value=body[0].value), body[0].value)
        if new:
            state = {'n': 0, 'depth': 0, 'expanded': stats['expanded']}
            for q, f in list(P.funcs.items()):
                if q in new or isinstance(f.node, ast.Lambda):
                    continue
                n0 = len(state['expanded'])
                state['n'] = 0          # suffixes count per caller: twin callers get twin expansions
                f.node.body = _process_block(P, f, f.node.body, new, state)
                if len(state['expanded']) > n0:
                    from .canon import canonicalise_function
                    _adopt_returned_closures(f.node)
                    canonicalise_function(f.node, generated=True)
                    _drop_unambiguous_suffixes(f.node, _reference_locals().get(q, ()))
                    # closures that came with an expanded factory helper now live in this function
                    P._collect_nested(f.mod, f.cls, f.node, q, f.path)
            # a new helper every use of which was expanded no longer exists as a unit of the program the rules see: its statements are
            # judged where they now stand (in the callers), not a second time out of context
            used = {t for (_, t) in state['expanded']}
            P.expanded_callers = {q_ for (q_, _t) in state['expanded']}
            absorbed = {}
            newnodes = {id(P.funcs[q].node) for q in used if q in P.funcs}

            def refs(tree, name):
                # references to `name` anywhere except inside the expanded helpers themselves (the trees already hold the expansions)
                st = [tree]
                while st:
                    x = st.pop()
                    if id(x) in newnodes:
                        continue
                    if (isinstance(x, ast.Name) and x.id == name) or (isinstance(x, ast.Attribute) and x.attr == name):
                        return True
                    st.extend(ast.iter_child_nodes(x))
                return False
            for t in sorted(used):
                if t not in P.funcs:
                    continue
                name = t.split('.')[-1].strip('<>')
                if not any(refs(tree, name) for (_, tree, _) in P.mods.values()):
                    absorbed[t] = P.funcs[t]
            for t in list(absorbed):
                del P.funcs[t]
                for k in [k for k in P.funcs if k.startswith(t + '.<')]:
                    absorbed[k] = P.funcs.pop(k)       # its closures were copied into the callers
            P.absorbed_funcs = absorbed
            stats['absorbed'] = sorted(absorbed)
            # integrity of the expansion: every generated name that is read is also bound in the same function
            import re as _re
            for (q, _t) in state['expanded']:
                f = P.funcs.get(q)
                if f is None:
                    continue
                loads = {x.id for x in ast.walk(f.node) if isinstance(x, ast.Name) and isinstance(x.ctx, ast.Load) and _re.search(r'__h\d+$', x.id)}
                stores = {x.id for x in ast.walk(f.node) if isinstance(x, ast.Name) and isinstance(x.ctx, (ast.Store, ast.Del))} | \
                         {a.arg for a in ast.walk(f.node) if isinstance(a, ast.arg)} | {x.name for x in ast.walk(f.node) if isinstance(x, FuncT)} | \
                         {x.name for x in ast.walk(f.node) if isinstance(x, ast.ExceptHandler) and x.name} | \
                         {al.asname or al.name for x in ast.walk(f.node) if isinstance(x, (ast.Import, ast.ImportFrom)) for al in x.names}
                if loads - stores:
                    # an analyser fault in one function must not take down the checks that never look at it: remembered, and raised
                    # (exit 2, no verdict) as soon as a rule or the escape analysis reads this function
                    if not hasattr(P, 'expansion_faults'):
                        P.expansion_faults = {}
                    P.expansion_faults[q] = f'{q}: helper expansion left {sorted(loads - stores)} unbound (analyser fault, no verdict)'
    return stats


def _unparse_block(self, node):
    self.fill('with __inline__:')
    with self.block():
        self.traverse(node.body)


def _unparse_exit(self, node):
    self.fill('__inline_exit__')


ast._Unparser.visit_InlineBlock = _unparse_block
ast._Unparser.visit_InlineExit = _unparse_exit
